#!/bin/sh
# Build /verif/.venv: an overlay on /venv (repo deps: numpy, scipy, networkx, ase, PyCifRW, click) plus
# z3-solver, crosshair-tool, cvc5, jsonschema from the offline wheelhouse. Idempotent and file-locked.
set -e
cd "$(dirname "$0")"
V=/verif/.venv
exec 9>/verif/.setup.lock
flock 9
if [ -x "$V/bin/python" ] && "$V/bin/python" -c "import z3, numpy, crosshair, jsonschema" 2>/dev/null; then
  exit 0
fi
rm -rf "$V"
/venv/bin/python -m venv "$V"
SP=$("$V/bin/python" -c "import sysconfig; print(sysconfig.get_paths()['purelib'])")
printf '/venv/lib/python3.12/site-packages\n/repo\n' > "$SP/verif_overlay.pth"
PIP_NO_INDEX=1 "$V/bin/python" -m pip install -q --no-index --find-links /opt/veriftools/wheels \
    z3-solver crosshair-tool cvc5 jsonschema >/dev/null
"$V/bin/python" -c "import z3, numpy, scipy, networkx, crosshair, jsonschema, mofun; print('setup ok', z3.get_version_string())"
