#!/bin/sh
# usage: seedmatrix.sh [m|n]   (m = first round of seeded changes, n = second round)
# run every kept seeded change against the check of the property it was written for (and extra checks given in tools/seed_extra.txt);
# writes /verif/seeded/RESULTS.md.  Sequential; /repo is restored after each run.  Do not touch /repo while this runs.
cd /verif
PFX=${1:-m}
OUT=/verif/seeded/RESULTS-$PFX.md
echo "| seeded change | needs | check | exit | verdict line |" > $OUT.tmp
echo "|---|---|---|---|---|" >> $OUT.tmp
for D in seeded/C*-$PFX*; do
  S=$(basename $D); P=${S%%-*}
  NEEDS=$(python3 -c "import json,sys; print(json.load(open('$D/meta.json')).get('needs','')[:160].replace('|','/').replace('\n',' '))")
  for C in $P $(grep "^$S " tools/seed_extra.txt 2>/dev/null | cut -d' ' -f2-); do
    R=$(./tools/seedrun.sh $S $C 2>&1 | grep -v WARNING)
    E=$(echo "$R" | grep "^seed=" | sed 's/.*exit=//')
    V=$(echo "$R" | grep -c "^VIOLATION")
    H=$(echo "$R" | grep -c "^HARNESS-ERROR")
    echo "| $S | $NEEDS | $C | $E | $V VIOLATION line(s) shown, $H harness error(s) |" >> $OUT.tmp
  done
done
mv $OUT.tmp $OUT
