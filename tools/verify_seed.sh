#!/bin/sh
# usage: verify_seed.sh <Cxx> <k>   -- confirm an agent-produced mutation in its scratch worktree, then keep it
ID=$1; K=$2; R=${SEEDROOT:-/tmp/seed}; PFX=${SEEDPFX:-m}; W=$R/$ID; O=$R/$ID.out/m$K; D=/verif/seeded/$ID-$PFX$K
cd $W || exit 2
git checkout -q -- . ; git clean -fdq
git apply --check $O/patch.diff || { echo "$ID m$K: patch does not apply"; exit 2; }
PYTHONPATH=$W /venv/bin/python $O/demo.py >$R/$ID.m$K.clean.log 2>&1; C=$?
git apply $O/patch.diff
T=$(/venv/bin/python -m pytest -q -p no:cacheprovider 2>&1 | tail -1)
PYTHONPATH=$W /venv/bin/python $O/demo.py >$R/$ID.m$K.mut.log 2>&1; M=$?
git checkout -q -- . ; git clean -fdq
echo "$ID m$K: clean-demo-exit=$C mutated-demo-exit=$M tests='$T'"
case "$T" in *"122 passed"*) ;; *) echo "  REJECT: tests changed"; exit 1;; esac
[ $C -eq 0 ] && [ $M -ne 0 ] || { echo "  REJECT: demo does not discriminate"; exit 1; }
mkdir -p $D && cp $O/patch.diff $O/demo.py $D/ && python3 - "$O/meta.json" "$D/meta.json" "$T" <<'PY'
import json,sys
m=json.load(open(sys.argv[1]))
m['verified_by_builder']={'tests_with_patch':sys.argv[3],'demo_exit_clean':0,'demo_exit_mutated':'nonzero',
  'how':'tools/verify_seed.sh: git apply in scratch worktree; pytest; demo with/without patch; worktree reset'}
json.dump(m,open(sys.argv[2],'w'),indent=1)
PY
