#!/bin/sh
# usage: seedrun.sh <seed dir name under /verif/seeded> <property id> [extra check args]  -- apply, run check, revert
S=$1; P=$2; shift 2
git -C /repo diff --quiet || { echo "/repo dirty"; exit 2; }
git -C /repo apply /verif/seeded/$S/patch.diff || exit 2
cp /verif/evidence/$P.json /tmp/seedrun.$P.evidence.bak 2>/dev/null
cd /verif && ./check $P "$@" > /tmp/seedrun.$S.$P.log 2>&1; E=$?
cp /tmp/seedrun.$P.evidence.bak /verif/evidence/$P.json 2>/dev/null
git -C /repo checkout -- .
grep -v -E "WARNING conda|SELFTEST" /tmp/seedrun.$S.$P.log | grep -E "^(VIOLATION|KNOWN|HARNESS|C[0-9]+ \\[)" | cut -c1-400 | tail -5
echo "seed=$S check=$P exit=$E"
