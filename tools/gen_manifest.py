#!/usr/bin/env python3
"""regenerates MANIFEST.json from tools/claims.json (one entry per claimed property) + properties.jsonl"""
import json, os
V = os.path.dirname(os.path.dirname(os.path.abspath(__file__)))
claims = json.load(open(os.path.join(V, 'tools', 'claims.json')))
props = [json.loads(l) for l in open(os.path.join(V, 'properties.jsonl'))]
checks, na = [], []
SUFFIX = (" Every harness family also has history instances (an earlier call, a copy, an in-place edit or a changed cell before the call under "
          "test). On a sample of paths the obligation z3 has proved (path AND NOT oracle, SMT-LIB2 text) is re-decided by cvc5 1.4.0; a "
          "disagreement is a harness error (exit 3); counts are in the evidence (cvc5_crosscheck).")
for p in props:
    c = claims.get(p['id'])
    if c and c.get('claimed'):
        checks.append(dict(
            property_id=p['id'],
            quick_cmd=f"./check {p['id']} --tier quick",
            thorough_cmd=f"./check {p['id']} --tier thorough",
            evidence_file=f"/verif/evidence/{p['id']}.json",
            replay_cmd_template="./check --replay {path}",
            engine="symnp",
            level_claimed=dict(category=c['category'], text=c['text'], design_ref=c.get('design_ref', 'DESIGN.md section 6')),
            level_note=c['note'] + SUFFIX,
            technique=c['technique']))
    else:
        na.append(dict(property_id=p['id'], reason=(c or {}).get('reason', 'check not built yet in this round (planned: see DESIGN.md section 6)')))
m = dict(
    version=1,
    setup_cmd="./setup.sh",
    hooks=dict(guard="MOFUN_VERIF", enable="none needed: all instrumentation is in-memory (import redirection + one AST rewrite of '\"lit\" % args'); /repo is only read",
               baseline_off_cmd="cd /repo && /venv/bin/python -m pytest -ra -q -p no:cacheprovider --timeout=900 --continue-on-collection-errors",
               source_commits=[], add_only=True),
    engines=[dict(name="symnp", path="/verif/symnp", serves_properties=[c['property_id'] for c in checks],
                  kind_free_text="z3-backed symbolic execution of mofun's real Python source (numpy on object arrays, solver-decided branches, DFS re-execution), per-path unsat of path AND NOT oracle; counterexamples replayed on the unshimmed code"),
             dict(name="crosshair", path="/verif/harness/c19_terms.py", serves_properties=[p for p in ('C19',) if claims.get(p, {}).get('claimed')],
                  kind_free_text="CrossHair 0.0.110 contracts on the pure-Python kernel helpers.typekey (second engine inside the C19 check: every condition must be 'Confirmed over all paths')"),
             dict(name="cvc5-second-opinion", path="/verif/symnp/core.py", serves_properties=[c['property_id'] for c in checks],
                  kind_free_text="cvc5 1.4.0 (Python wheel) re-decides a sample of the obligations z3 answered unsat (Engine.second_opinion); never decides a property on its own")],
    checks=checks,
    notes="All claims are bounded (bounds in each evidence file and DESIGN.md section 6); none is a proof. Exit 3 = harness error (never a verdict).",
    not_applicable=na)
json.dump(m, open(os.path.join(V, 'MANIFEST.json'), 'w'), indent=1)
print(len(checks), 'claimed;', len(na), 'not applicable')
