#!/bin/bash
# usage: seedpar.sh <jobs> <nproc-per-job> <outfile> <seed>:<check> [<seed>:<check> ...]
# Run seeded changes against checks IN PARALLEL without touching /repo: each job gets a scratch worktree of /repo's HEAD with
# the patch applied (MOFUN_REPO points the loader at it) and a scratch copy of /verif (so evidence files are not disturbed).
# Only for my own testing of the checks; registered checks always run on /repo itself.
J=$1; NP=$2; OUT=$3; shift 3
R=/tmp/seedpar.$$; mkdir -p $R
cd /verif && ./setup.sh >/dev/null 2>&1
one() {
  S=${1%%:*}; C=${1##*:}; K=$S.$C
  W=$R/w.$K; V=$R/v.$K
  git -C /repo worktree add -q --detach $W HEAD 2>/dev/null || { echo "| $S | $C | worktree-failed | |"; return; }
  if ! git -C $W apply /verif/seeded/$S/patch.diff 2>/dev/null; then echo "| $S | $C | patch-does-not-apply | |"; else
    mkdir -p $V; (cd /verif && tar cf - --exclude=.git --exclude=.venv --exclude=seeded --exclude=replays . ) | (cd $V && tar xf -)
    S0=$(date +%s)
    (cd $V && MOFUN_REPO=$W VERIF_NPROC=$NP /verif/.venv/bin/python -m symnp.cli $C $EXTRA > $R/$K.log 2>&1); E=$?
    T=$(( $(date +%s) - S0 ))
    NV=$(grep -c "^VIOLATION" $R/$K.log); NH=$(grep -c "^HARNESS-ERROR" $R/$K.log)
    FIRST=$(grep -m1 "^VIOLATION" $R/$K.log | cut -c1-160 | tr '|' '/')
    echo "| $S | $C | exit=$E ${T}s | $NV VIOLATION, $NH harness-error; $FIRST |"
    mkdir -p /tmp/seedpar.logs && cp $R/$K.log /tmp/seedpar.logs/$K.log
  fi
  git -C /repo worktree remove --force $W 2>/dev/null; rm -rf $V $W
}
export R NP EXTRA
for X in "$@"; do
  while [ $(jobs -r | wc -l) -ge $J ]; do sleep 1; done
  one $X >> $OUT &
done
wait
git -C /repo worktree prune
rm -rf $R
