#!/bin/sh
# run every claimed check (quick by default) on the current /repo tree; one line per check
cd "$(dirname "$0")/.."
TIER=${1:-quick}
git -C /repo diff --quiet || echo "NOTE: /repo has uncommitted changes"
for P in $(python3 -c "import json; print(' '.join(c['property_id'] for c in json.load(open('MANIFEST.json'))['checks']))"); do
  S=$(date +%s); ./check $P --tier $TIER > /tmp/runall.$TIER.$P.log 2>&1; E=$?; T=$(( $(date +%s) - S ))
  echo "$P exit=$E ${T}s $(grep -E "^$P \[" /tmp/runall.$TIER.$P.log | cut -c1-200)"
  grep -E "^(VIOLATION|HARNESS-ERROR|SELFTEST.*MISSED)" /tmp/runall.$TIER.$P.log | cut -c1-300 | head -5
done
