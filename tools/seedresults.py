#!/usr/bin/env python3
"""usage: seedresults.py <raw seedpar output> <round letter>  -> writes seeded/RESULTS-<letter>.md (one row per seeded change x check, with what the change needs)"""
import json, os, re, sys
raw, letter = sys.argv[1], sys.argv[2]
rows = []
for line in open(raw):
    m = re.match(r"\| (\S+) \| (\S+) \| (.*?) \| (.*) \|$", line.strip())
    if not m or not m.group(1).endswith(tuple(letter + str(k) for k in range(1, 10))):
        continue
    seed, chk, ex, rest = m.groups()
    needs = ''
    mp = f"/verif/seeded/{seed}/meta.json"
    if os.path.exists(mp):
        needs = ' '.join(str(json.load(open(mp)).get('needs', '')).split())[:170].replace('|', '/')
    rest = re.sub(r"replay=\S+", "", rest).strip()
    rows.append((seed, needs, chk, ex, rest[:90]))
rows.sort()
out = f"/verif/seeded/RESULTS-{letter}.md"
with open(out, 'w') as f:
    f.write("| seeded change | needs | check | exit / wall | verdict |\n|---|---|---|---|---|\n")
    for r in rows:
        f.write("| " + " | ".join(r) + " |\n")
print(out, len(rows), 'rows;', sum(1 for r in rows if 'exit=1' in r[3]), 'reported')
