"""symnp core: z3-backed symbolic numbers (Sym / SBool) and a depth-first path explorer that re-executes
a harness body once per feasible path.  The code under test is mofun's real source (see loader.py); every
`if`, `in`, `sorted`, index or hash on a symbolic value calls back into the Engine, which asks z3 which
outcomes are feasible under the current path condition.

Nothing here is specific to mofun.
"""
import fractions
import itertools
import time

import numpy as _np
import z3

Fraction = fractions.Fraction
EXACT_NUMERALS = False


class PathAbort(BaseException):
    """current path is infeasible / abandoned (BaseException: must not be swallowed by `except Exception`)"""

    def __init__(self, *a):
        super().__init__(*a)
        if ENGINE is not None:
            ENGINE.aborted = True


class Inconclusive(BaseException):
    """solver answered unknown on this path"""

    def __init__(self, *a):
        super().__init__(*a)
        if ENGINE is not None:
            ENGINE.inconclusive_flag = True


class BudgetExceeded(BaseException):
    """wall-clock budget of the instance exhausted: exploration stops, the instance is reported as truncated"""


class Unsupported(Exception):
    """a symbolic value reached something the engine does not model"""


ENGINE = None


def eng():
    return ENGINE


def set_engine(e):
    global ENGINE
    ENGINE = e
    return e


class Engine:
    def __init__(self, timeout_ms=20000, fresh_timeout_ms=60000, max_paths=200000):
        self.s = z3.Solver()
        self.s.set('timeout', timeout_ms)
        self.fresh_timeout_ms = fresh_timeout_ms
        self.max_paths = max_paths
        self.decisions = []
        self.pos = 0
        self.nq = 0
        self.tq = 0.0
        self.paths = 0
        self.aborted_paths = 0
        self.unknown_paths = 0
        self.unknown_queries = 0
        self.fresh_retries = 0
        self.realised_paths = 0
        self.realised_flag = False
        self.concretised = 0
        self.branch_decisions = 0
        self.fresh = itertools.count()
        self.model = None
        self.ccache = {}
        self.aborted = False
        self.inconclusive_flag = False
        self.literals = []     # decided literals of the current path (for robust models)
        self.truncated = False
        self.deadline = None

    # ------------------------------------------------------------------ solver helpers
    def check(self, *extra):
        """sat? under the current path condition plus extra; returns (bool, model|None); raises Inconclusive"""
        t = time.time()
        if self.deadline is not None and t > self.deadline:
            self.truncated = True
            raise BudgetExceeded()
        self.s.push()
        for e in extra:
            self.s.add(e)
        r = self.s.check()
        m = self.s.model() if r == z3.sat else None
        self.s.pop()
        self.nq += 1
        self.tq += time.time() - t
        if r == z3.unknown:
            # the incremental core is weak on nonlinear arithmetic: retry once in a fresh solver
            t = time.time()
            f = z3.Solver()
            f.set('timeout', self.fresh_timeout_ms)
            f.add(*self.s.assertions())
            f.add(*extra)
            r = f.check()
            m = f.model() if r == z3.sat else None
            self.nq += 1
            self.tq += time.time() - t
            self.fresh_retries += 1
        if r == z3.unknown:
            self.unknown_queries += 1
            raise Inconclusive(self.s.reason_unknown())
        return (r == z3.sat), m

    def _model_says(self, c):
        if self.model is None:
            return None
        v = self.model.eval(c, model_completion=True)
        if z3.is_true(v):
            return True
        if z3.is_false(v):
            return False
        return None

    def add(self, *cs):
        for c in cs:
            if c is True:
                continue
            if c is False:
                raise PathAbort()
            self.s.add(c)
            if self.model is not None and self._model_says(c) is not True:
                self.model = None

    def assume(self, c):
        """add an input assumption (placed before the code it constrains)"""
        c = unwrap_bool(c)
        if c is True:
            return
        if c is False:
            raise PathAbort()
        self.add(c)
        self.literals.append(c)
        if self.model is None:
            ok, m = self.check()
            if not ok:
                raise PathAbort()
            self.model = m

    def get_model(self):
        if self.model is None:
            ok, m = self.check()
            if not ok:
                raise PathAbort()
            self.model = m
        return self.model

    # ------------------------------------------------------------------ forking
    def decide(self, c):
        """branch on z3 Bool c; returns a python bool"""
        if self.pos < len(self.decisions):
            d = self.decisions[self.pos]
            self.pos += 1
            v = d['v']
            lit = c if v else z3.Not(c)
            self.add(lit)
            self.literals.append(lit)
            return v
        ms = self._model_says(c)
        if ms is None:
            ok, m = self.check()
            if not ok:
                raise PathAbort()
            self.model = m
            ms = self._model_says(c)
            if ms is None:
                ms = True if self.check(c)[0] else False
        other = z3.Not(c) if ms else c
        o_ok, m2 = self.check(other)
        v = True if (ms or o_ok) else False     # prefer True first when both feasible
        if v != ms:
            self.model = m2
        self.decisions.append({'k': 'b', 'v': v, 'alt': bool(o_ok)})
        self.pos += 1
        self.branch_decisions += 1
        lit = c if v else z3.Not(c)
        self.s.add(lit)
        self.literals.append(lit)
        if self.model is not None and self._model_says(lit) is not True:
            self.model = None
        return v

    def concretize(self, e):
        """solver-driven case split over the feasible integer values of e"""
        key = e.get_id()
        if key in self.ccache:
            return self.ccache[key]
        v = self._concretize(e)
        self.ccache[key] = v
        return v

    def _concretize(self, e):
        if self.pos < len(self.decisions):
            d = self.decisions[self.pos]
            self.pos += 1
            if d.get('next'):
                d['next'] = False
                ok, m = self.check(*[e != t for t in d['tried']])
                if not ok:
                    d['dead'] = True
                    raise PathAbort()
                v = m.eval(e, model_completion=True).as_long()
                d['tried'].append(v)
                d['v'] = v
                if not self.check(*[e != t for t in d['tried']])[0]:
                    d['dead'] = True       # that was the last feasible value
                if len(d['tried']) > 4096:
                    raise Unsupported("concretisation of an unbounded integer")
            v = d['v']
        else:
            m = self.get_model()
            v = m.eval(e, model_completion=True).as_long()
            d = {'k': 'v', 'v': v, 'tried': [v], 'alt': True}
            # look ahead: if no other value is feasible, do not schedule a (costly) re-execution just to find that out
            if not self.check(e != v)[0]:
                d['dead'] = True
            self.decisions.append(d)
            self.pos += 1
            self.concretised += 1
        self.add(e == v)
        self.literals.append(e == v)
        return v

    def choose(self, n, label='choice'):
        """nondeterministic choice of an index in range(n): every value is explored"""
        if n <= 0:
            raise PathAbort()
        if n == 1:
            return 0
        v = z3.Int(f"{label}!{next(self.fresh)}")
        self.add(v >= 0, v < n)
        return self.concretize(v)

    def unique_value(self, e):
        """if z3 expr e has exactly one value under the path condition return it (python number) else None"""
        e = z3.simplify(e)
        c = const_value(e)
        if c is not None:
            return c
        m = self.get_model()
        v = m.eval(e, model_completion=True)
        sat, _ = self.check(e != v)
        if sat:
            return None
        return const_value(v, approx=True)

    def approx_value(self, e, tol=1e-9):
        """a number v such that |e - v| <= tol on the whole current path region, or None"""
        u = self.unique_value(e)
        if u is not None:
            return u
        m = self.get_model()
        v = const_value(m.eval(e, model_completion=True), approx=True)
        if v is None:
            return None
        vz = z3.RealVal(Fraction(v)) if not isinstance(v, int) else z3.RealVal(v)
        tz = z3.RealVal(Fraction(tol))
        ez = z3.ToReal(e) if z3.is_int(e) else e
        if self.check(z3.Or(ez - vz > tz, vz - ez > tz))[0]:
            return None
        return v

    def realise(self, e):
        """pin e to its model value (the path then proves nothing beyond that value); counted"""
        m = self.get_model()
        v = m.eval(e, model_completion=True)
        self.add(e == v)
        self.realised_flag = True
        return const_value(v, approx=True)

    # ------------------------------------------------------------------ exploration
    def explore(self, fn, on_unknown=None):
        """run fn(engine) once per feasible path; returns list of results"""
        results = []
        while True:
            self.s.push()
            self.pos = 0
            self.ccache = {}
            self.model = None
            self.aborted = False
            self.inconclusive_flag = False
            self.realised_flag = False
            self.literals = []
            try:
                r = fn(self)
                self.paths += 1
                if self.realised_flag:
                    self.realised_paths += 1
                results.append(r)
            except BudgetExceeded:
                self.s.pop()
                self.truncated = True
                break
            except PathAbort:
                self.aborted_paths += 1
            except Inconclusive:
                self.unknown_paths += 1
                if on_unknown:
                    on_unknown(self)
            except Exception:
                if self.truncated:
                    self.s.pop()
                    break
                if self.inconclusive_flag:
                    self.unknown_paths += 1
                elif self.aborted:
                    self.aborted_paths += 1
                else:
                    self.s.pop()
                    raise
            finally:
                pass
            self.s.pop()
            # drop decisions that were recorded beyond the point where the path ended abnormally
            del self.decisions[self.pos:]
            while self.decisions:
                d = self.decisions[-1]
                if d['k'] == 'b' and d['alt']:
                    d['v'] = not d['v']
                    d['alt'] = False
                    break
                if d['k'] == 'v' and not d.get('dead'):
                    d['next'] = True
                    break
                self.decisions.pop()
            if not self.decisions:
                break
            if self.paths + self.aborted_paths + self.unknown_paths >= self.max_paths:
                self.truncated = True
                break
        return results

    def prove(self, c):
        """under the current path: is c valid?  (True, None) or (False, model)"""
        c = unwrap_bool(c)
        if c is True:
            return True, None
        if c is False:
            return False, self.get_model()
        sat, m = self.check(z3.Not(c))
        return (not sat), m

    def second_opinion(self, c, timeout_ms=10000):
        """re-decide `path AND NOT c` (which z3 has just answered unsat) with cvc5 on the SMT-LIB2 text of the query.
        Returns 'unsat' (agrees), 'sat' (DISAGREES), 'unknown' (cvc5 timeout / incomplete) or 'unparsed' (text not accepted)."""
        c = unwrap_bool(c)
        if c is True or c is False:
            return 'trivial'
        try:
            import cvc5
        except Exception:
            return 'unavailable'
        f = z3.Solver()
        f.add(*self.s.assertions())
        f.add(z3.Not(c))
        txt = f.to_smt2()
        t = time.time()
        try:
            slv = cvc5.Solver()
            slv.setOption('tlimit-per', str(int(timeout_ms)))
            slv.setLogic('ALL')
            ip = cvc5.InputParser(slv)
            ip.setStringInput(cvc5.InputLanguage.SMT_LIB_2_6, txt, 'q')
            sm = ip.getSymbolManager()
            out = ''
            while True:
                cmd = ip.nextCommand()
                if cmd.isNull():
                    break
                out += str(cmd.invoke(slv, sm))
        except Exception as ex:
            self.t2 = getattr(self, 't2', 0.0) + time.time() - t
            return 'unparsed'
        self.t2 = getattr(self, 't2', 0.0) + time.time() - t
        if '(error' in out:
            return 'unparsed'
        out = out.strip().splitlines()
        r = out[-1].strip() if out else 'unknown'
        return r if r in ('sat', 'unsat') else 'unknown'

    def robust_model(self, extra=(), margin=Fraction(1, 10 ** 6)):
        """a model of the path condition in which every decided strict/non-strict real comparison holds with a
        margin (keeps replays away from IEEE-rounding distance of a branch boundary); None if the path is thin"""
        cs = []
        changed = False
        for lit in self.literals:
            c2 = _strengthen(lit, margin)
            changed = changed or (c2 is not lit)
            cs.append(c2)
        if not changed and not extra:
            return self.get_model()
        f = z3.Solver()
        f.set('timeout', 20000)
        f.add(*self.s.assertions())
        f.add(*cs)
        f.add(*extra)
        self.nq += 1
        t = time.time()
        r = f.check()
        self.tq += time.time() - t
        if r == z3.sat:
            return f.model()
        return None

    def stats(self):
        return dict(paths=self.paths, aborted_paths=self.aborted_paths, unknown_paths=self.unknown_paths,
                    unknown_queries=self.unknown_queries, realised_paths=self.realised_paths,
                    queries=self.nq, solver_s=round(self.tq, 3), branch_decisions=self.branch_decisions,
                    concretised_decisions=self.concretised, fresh_retries=self.fresh_retries,
                    truncated=self.truncated)


def _strengthen(lit, margin):
    """a<b -> a+m<=b etc. for arithmetic literals over reals; other literals unchanged"""
    neg = False
    e = lit
    while z3.is_not(e):
        neg = not neg
        e = e.arg(0)
    if not z3.is_app(e) or e.num_args() != 2:
        return lit
    a, b = e.arg(0), e.arg(1)
    if not (z3.is_arith(a) and z3.is_arith(b)) or (a.is_int() and b.is_int()):
        return lit
    k = e.decl().kind()
    mg = z3.RealVal(margin)
    if a.is_int():
        a = z3.ToReal(a)
    if b.is_int():
        b = z3.ToReal(b)
    if k == z3.Z3_OP_LT:
        return (a >= b + mg) if neg else (a + mg <= b)
    if k == z3.Z3_OP_LE:
        return (a >= b + mg) if neg else (a + mg <= b)
    if k == z3.Z3_OP_GT:
        return (a + mg <= b) if neg else (a >= b + mg)
    if k == z3.Z3_OP_GE:
        return (a + mg <= b) if neg else (a >= b + mg)
    if k == z3.Z3_OP_EQ and neg:
        return z3.Or(a + mg <= b, a >= b + mg)
    return lit


def const_value(v, approx=False):
    if z3.is_int_value(v):
        return v.as_long()
    if z3.is_rational_value(v):
        return Fraction(v.numerator_as_long(), v.denominator_as_long())
    if approx and z3.is_algebraic_value(v):
        return v.approx(20).as_fraction()
    return None


# ---------------------------------------------------------------------- values
def unwrap_bool(c):
    if isinstance(c, SBool):
        return c.e
    if isinstance(c, bool) or type(c).__name__ in ('bool_', 'bool'):
        return bool(c)
    return c


class SBool:
    __slots__ = ('e',)

    def __init__(self, e):
        self.e = e

    def __bool__(self):
        e = z3.simplify(self.e)
        if z3.is_true(e):
            return True
        if z3.is_false(e):
            return False
        return ENGINE.decide(e)

    def __and__(self, o):
        return mkbool(z3.And(self.e, tob(o)))
    __rand__ = __and__

    def __or__(self, o):
        return mkbool(z3.Or(self.e, tob(o)))
    __ror__ = __or__

    def __invert__(self):
        return mkbool(z3.Not(self.e))

    def __eq__(self, o):
        return mkbool(self.e == tob(o))

    def __ne__(self, o):
        return mkbool(self.e != tob(o))

    def __hash__(self):
        return hash(bool(self))

    def __repr__(self):
        return f"SBool({self.e})"

    def __deepcopy__(self, memo):
        return self

    def __copy__(self):
        return self


def tob(o):
    if isinstance(o, SBool):
        return o.e
    if isinstance(o, bool) or type(o).__name__ in ('bool_', 'bool'):
        return z3.BoolVal(bool(o))
    if z3.is_expr(o):
        return o
    raise TypeError(o)


SIMPLIFY = True


class nosimplify:
    """inside this block terms are built without calling z3.simplify (used while building oracle formulas)"""

    def __enter__(self):
        global SIMPLIFY
        self.old = SIMPLIFY
        SIMPLIFY = False

    def __exit__(self, *a):
        global SIMPLIFY
        SIMPLIFY = self.old


def mkbool(e):
    if not SIMPLIFY:
        if z3.is_true(e):
            return True
        if z3.is_false(e):
            return False
        return SBool(e)
    e = z3.simplify(e)
    if z3.is_true(e):
        return True
    if z3.is_false(e):
        return False
    return SBool(e)


def _is_np_int(o):
    return type(o).__module__ == 'numpy' and 'int' in type(o).__name__


def _is_np_float(o):
    return type(o).__module__ == 'numpy' and 'float' in type(o).__name__


def toz(o, want_real=False):
    if isinstance(o, Sym):
        return z3.ToReal(o.e) if (want_real and o.isint) else o.e
    if isinstance(o, SymSqrt):
        raise TypeError("lazy sqrt used arithmetically")
    if isinstance(o, bool) or type(o).__name__ in ('bool_',):
        o = int(o)
    if isinstance(o, int) or _is_np_int(o):
        return z3.RealVal(int(o)) if want_real else z3.IntVal(int(o))
    if isinstance(o, float) or _is_np_float(o):
        return z3.RealVal(Fraction(float(o)))
    if isinstance(o, Fraction):
        return z3.RealVal(o)
    if z3.is_expr(o):
        return z3.ToReal(o) if (want_real and o.sort() == z3.IntSort()) else o
    raise TypeError(type(o))


def _wants_real(s, o):
    return (not s.isint) or isinstance(o, (float, Fraction)) or (isinstance(o, Sym) and not o.isint) or _is_np_float(o)


class Sym:
    """symbolic number (z3 Int or Real term)"""
    __slots__ = ('e', '_i')

    def __init__(self, e, isint=None):
        self.e = e
        self._i = isint

    @property
    def isint(self):
        if self._i is None:
            self._i = z3.is_int(self.e)
        return self._i

    def _bin(self, o, f, rev=False):
        try:
            real = _wants_real(self, o)
            a = toz(self, real)
            b = toz(o, real)
        except TypeError:
            return NotImplemented
        if rev:
            a, b = b, a
        return mk(f(a, b))

    def __add__(s, o): return s._bin(o, lambda a, b: a + b)
    def __radd__(s, o): return s._bin(o, lambda a, b: a + b, True)
    def __sub__(s, o): return s._bin(o, lambda a, b: a - b)
    def __rsub__(s, o): return s._bin(o, lambda a, b: a - b, True)
    def __mul__(s, o): return s._bin(o, lambda a, b: a * b)
    def __rmul__(s, o): return s._bin(o, lambda a, b: a * b, True)
    def __neg__(s): return mk(-s.e)
    def __pos__(s): return s
    def __abs__(s): return mk(z3.If(s.e >= 0, s.e, -s.e))

    def __truediv__(s, o):
        try:
            a = toz(s, True); b = toz(o, True)
        except TypeError:
            return NotImplemented
        return mk(a / b)

    def __rtruediv__(s, o):
        try:
            a = toz(o, True); b = toz(s, True)
        except TypeError:
            return NotImplemented
        return mk(a / b)

    def __floordiv__(s, o):
        if s.isint and (isinstance(o, int) or _is_np_int(o) or (isinstance(o, Sym) and o.isint)):
            return mk(_ifloordiv(toz(s), toz(o)))
        if isinstance(o, _np.ndarray):
            return NotImplemented          # numpy broadcasts through __rfloordiv__ of the elements
        a = toz(s, True); b = toz(o, True)
        return _np.float64(ENGINE.concretize(z3.simplify(z3.ToInt(a / b))))

    def __rfloordiv__(s, o):
        if s.isint and (isinstance(o, int) or _is_np_int(o)):
            return mk(_ifloordiv(toz(o), toz(s)))
        a = toz(o, True); b = toz(s, True)
        return _np.float64(ENGINE.concretize(z3.simplify(z3.ToInt(a / b))))

    def __mod__(s, o):
        if s.isint and (isinstance(o, int) or _is_np_int(o) or (isinstance(o, Sym) and o.isint)):
            a = toz(s); b = toz(o)
            return mk(a - b * _ifloordiv(a, b))
        if isinstance(o, _np.ndarray):
            return NotImplemented
        a = toz(s, True); b = toz(o, True)
        # real modulo (periodic wrap): case split on the integer quotient, so that the result is linear on each case
        q = ENGINE.concretize(z3.simplify(z3.ToInt(a / b)))
        return mk(a - b * q)

    def __rmod__(s, o):
        if s.isint and (isinstance(o, int) or _is_np_int(o)):
            a = toz(o); b = toz(s)
            return mk(a - b * _ifloordiv(a, b))
        a = toz(o, True); b = toz(s, True)
        return mk(a - b * z3.ToReal(z3.ToInt(a / b)))

    def __pow__(s, o):
        if isinstance(o, _np.ndarray):
            return NotImplemented          # numpy broadcasts through the elements
        if _is_np_int(o):
            o = int(o)
        elif _is_np_float(o):
            o = float(o)
        if isinstance(o, Sym):
            o = ENGINE.concretize(o.e) if o.isint else o
        if isinstance(o, int) and not isinstance(o, bool) and o >= 0:
            r = z3.IntVal(1) if s.isint else z3.RealVal(1)
            for _ in range(o):
                r = r * s.e
            return mk(r)
        if o == 0.5:
            return sym_sqrt(s)
        if isinstance(o, float) and o == int(o) and o >= 0:
            return s.__pow__(int(o))
        raise Unsupported(f"pow {o}")

    def __rpow__(s, o):
        # concrete base, symbolic integer exponent: case split on the exponent
        if s.isint and isinstance(o, (int, float)) or _is_np_int(o) or _is_np_float(o):
            k = ENGINE.concretize(s.e)
            return o ** int(k)
        raise Unsupported(f"rpow {o}")

    def _cmp(s, o, f):
        if isinstance(o, SymSqrt):
            return NotImplemented
        try:
            real = _wants_real(s, o)
            a = toz(s, real); b = toz(o, real)
        except TypeError:
            return NotImplemented
        return mkbool(f(a, b))

    def __lt__(s, o): return s._cmp(o, lambda a, b: a < b)
    def __le__(s, o): return s._cmp(o, lambda a, b: a <= b)
    def __gt__(s, o): return s._cmp(o, lambda a, b: a > b)
    def __ge__(s, o): return s._cmp(o, lambda a, b: a >= b)

    def __eq__(s, o):
        r = s._cmp(o, lambda a, b: a == b)
        return False if r is NotImplemented else r

    def __ne__(s, o):
        r = s._cmp(o, lambda a, b: a != b)
        return True if r is NotImplemented else r

    def __bool__(s):
        return bool(s != 0)

    def __index__(s):
        if not s.isint:
            raise Unsupported("index of a symbolic real")
        return ENGINE.concretize(s.e)

    def __int__(s):
        if s.isint:
            return ENGINE.concretize(s.e)
        # truncation toward zero, then solver-driven case split over the feasible integer values
        return ENGINE.concretize(z3.If(s.e >= 0, z3.ToInt(s.e), -z3.ToInt(-s.e)))

    # floor / ceil / trunc of a symbolic real: case split on the integer result (solver-enumerated), so that everything
    # computed from it stays linear on each case
    def __trunc__(s):
        return s if s.isint else ENGINE.concretize(z3.simplify(z3.If(s.e >= 0, z3.ToInt(s.e), -z3.ToInt(-s.e))))

    def __floor__(s):
        return s if s.isint else ENGINE.concretize(z3.simplify(z3.ToInt(s.e)))

    def __ceil__(s):
        return s if s.isint else ENGINE.concretize(z3.simplify(-z3.ToInt(-s.e)))

    def __float__(s):
        v = ENGINE.unique_value(s.e)
        if v is None:
            raise Unsupported(f"float() of a non-constant symbolic value: {s.e}")
        return float(v)

    def __round__(s, n=None):
        if n is not None:
            raise Unsupported("round(x, n)")
        if s.isint:
            return s
        k = z3.Int(f"round!{next(ENGINE.fresh)}")
        x = toz(s, True)
        c1, c2 = 2 * (z3.ToReal(k) - x) <= 1, 2 * (x - z3.ToReal(k)) <= 1
        ENGINE.add(c1, c2)
        ENGINE.literals.extend([c1, c2])      # robust models then stay away from exact ties
        return ENGINE.concretize(k)            # case split on the rounded value (both neighbours at an exact tie)

    def __hash__(s):
        if s.isint:
            return hash(s.__index__())
        # a symbolic real used as a dict/set key: only possible by pinning it to its model value (counted as realised)
        if getattr(ENGINE, 'allow_realise', False):
            return hash(float(ENGINE.realise(s.e)))
        raise Unsupported("hash of a symbolic real")

    def __repr__(s):
        return f"Sym({s.e})"

    def __deepcopy__(s, memo):
        return s

    def __copy__(s):
        return s


def _ifloordiv(a, b):
    # z3 integer division rounds so that the remainder is non-negative; python floors
    # (for b>0 z3's div is the floor; for b<0 floor(a/b) = floor((-a)/(-b)) with -b>0)
    return z3.If(b > 0, a / b, (-a) / (-b))


def mk(e):
    if not SIMPLIFY:
        if z3.is_int_value(e):
            return e.as_long()
        return Sym(e)
    e = z3.simplify(e)
    if z3.is_int_value(e):
        return e.as_long()
    if z3.is_rational_value(e):
        # a real-sorted numeral: hand back a numpy double, which is what the real code would hold here (so that e.g.
        # division by a zero norm gives nan as in numpy instead of raising as Fraction would)
        return _np.float64(e.numerator_as_long() / e.denominator_as_long()) if EXACT_NUMERALS is False else \
            Fraction(e.numerator_as_long(), e.denominator_as_long())
    return Sym(e)


class SymSqrt:
    """sqrt(rad) kept lazy: only order comparisons against ordinary values are supported (no auxiliary variable)"""

    def __init__(s, rad):
        s.rad = rad

    def _c(s, o):
        return toz(o, True)

    # two lazy square roots compare like their (non-negative) radicands
    def __lt__(s, o):
        if isinstance(o, SymSqrt): return mkbool(s.rad < o.rad)
        c = s._c(o); return mkbool(z3.And(c > 0, s.rad < c * c))
    def __le__(s, o):
        if isinstance(o, SymSqrt): return mkbool(s.rad <= o.rad)
        c = s._c(o); return mkbool(z3.And(c >= 0, s.rad <= c * c))
    def __gt__(s, o):
        if isinstance(o, SymSqrt): return mkbool(s.rad > o.rad)
        c = s._c(o); return mkbool(z3.Or(c < 0, s.rad > c * c))
    def __ge__(s, o):
        if isinstance(o, SymSqrt): return mkbool(s.rad >= o.rad)
        c = s._c(o); return mkbool(z3.Or(c <= 0, s.rad >= c * c))

    def __deepcopy__(s, memo):
        return s


def lazy_sqrt(x):
    if not isinstance(x, Sym):
        return float(x) ** 0.5
    return SymSqrt(toz(x, True))


def sym_sqrt(x):
    if not isinstance(x, Sym):
        return float(x) ** 0.5
    e = z3.simplify(x.e)
    if z3.is_app_of(e, z3.Z3_OP_MUL) and e.num_args() == 2 and e.arg(0).eq(e.arg(1)):
        t = e.arg(0)
        return mk(z3.If(t >= 0, t, -t))
    if z3.is_app_of(e, z3.Z3_OP_POWER) and z3.is_rational_value(e.arg(1)) and \
            e.arg(1).numerator_as_long() == 2 and e.arg(1).denominator_as_long() == 1:
        t = e.arg(0)
        return mk(z3.If(t >= 0, t, -t))
    # memoise per radicand: a new radicand re-uses the auxiliary of an earlier one when their difference normalises to 0 (sum
    # of monomials), so that e.g. a*a + b*b - 2*a*b*c and b*b + a*a - 2*b*a*c share one auxiliary and the solver never has
    # to derive y = y' from y*y = y'*y'
    memo = getattr(ENGINE, '_sqrt_memo', None)
    if memo is None or getattr(ENGINE, '_sqrt_memo_path', None) is not ENGINE.literals:
        memo = ENGINE._sqrt_memo = {}
        ENGINE._sqrt_memo_path = ENGINE.literals
    key = e.get_id()
    if key in memo:
        return memo[key][1]
    for k2, (r2, y2) in list(memo.items()):
        try:
            d = z3.simplify(e - r2, som=True)
        except z3.Z3Exception:
            continue
        if z3.is_rational_value(d) and d.numerator_as_long() == 0:
            memo[key] = (e, y2)
            return y2
    y = z3.Real(f"sqrt!{next(ENGINE.fresh)}")
    xe = toz(x, True)
    ENGINE.add(y >= 0, y * y == xe)
    r = Sym(y)
    memo[key] = (e, r)
    return r


def Int(name, lo=None, hi=None):
    v = z3.Int(name)
    if lo is not None:
        ENGINE.add(v >= lo)
    if hi is not None:
        ENGINE.add(v <= hi)
    return Sym(v)


def Real(name, lo=None, hi=None, hi_strict=True):
    v = z3.Real(name)
    if lo is not None:
        ENGINE.add(v >= toz(lo, True))
    if hi is not None:
        ENGINE.add(v < toz(hi, True) if hi_strict else v <= toz(hi, True))
    return Sym(v)


# ---------------------------------------------------------------------- polymorphic logic helpers
# These work on python bools / numbers and on SBool / Sym alike, so a harness oracle is written once and is
# evaluated symbolically (as one z3 formula) or concretely (replay on real code).
def AND(*cs):
    cs = [unwrap_bool(c) for c in cs]
    if any(c is False for c in cs):
        return False
    cs = [c for c in cs if c is not True]
    if not cs:
        return True
    return mkbool(z3.And(*cs))


def OR(*cs):
    cs = [unwrap_bool(c) for c in cs]
    if any(c is True for c in cs):
        return True
    cs = [c for c in cs if c is not False]
    if not cs:
        return False
    return mkbool(z3.Or(*cs))


def NOT(c):
    c = unwrap_bool(c)
    if isinstance(c, bool):
        return not c
    return mkbool(z3.Not(c))


def IMPLIES(a, b):
    return OR(NOT(a), b)


def IFF(a, b):
    return AND(IMPLIES(a, b), IMPLIES(b, a))


def EQ(a, b):
    r = (a == b)
    if isinstance(r, SBool) or isinstance(r, bool):
        return r
    return bool(r)


def ITE(c, a, b):
    c = unwrap_bool(c)
    if isinstance(c, bool):
        return a if c else b
    real = any(isinstance(x, (float, Fraction)) or (isinstance(x, Sym) and not x.isint) for x in (a, b))
    return mk(z3.If(c, toz(a, real), toz(b, real)))


def SUM(xs):
    r = 0
    for x in xs:
        r = r + x
    return r


def COUNT(cs):
    return SUM([ITE(c, 1, 0) for c in cs])


def ABS(x):
    return abs(x)


def close(a, b, eps):
    d = a - b
    return AND(d <= eps, -d <= eps)


def is_integer_within(x, eps):
    """exists integer n with |x - n| <= eps  (x real, possibly symbolic)"""
    if not isinstance(x, Sym):
        xf = Fraction(x) if not isinstance(x, Fraction) else x
        n = round(xf)
        return abs(xf - n) <= eps
    n = z3.ToInt(toz(x, True) + z3.RealVal(Fraction(1, 2)))
    d = toz(x, True) - z3.ToReal(n)
    e = toz(eps, True)
    return mkbool(z3.And(d <= e, -d <= e))


def has_sym(x):
    import numpy as np
    if isinstance(x, (Sym, SBool, SymSqrt)):
        return True
    if isinstance(x, np.ndarray):
        return x.dtype == object and any(isinstance(v, (Sym, SBool, SymSqrt)) for v in x.flat)
    if isinstance(x, (list, tuple)):
        return any(has_sym(v) for v in x)
    return False
