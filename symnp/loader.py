"""Loads mofun's real source files from /repo (current working tree, re-read on every run) into fresh module
objects.  mode='sym': `numpy`, `math`, `scipy...`, `random` are redirected to the proxies; mode='real': the same
source with the real libraries (only `random`/`np.random` stay nondeterministic stubs so a replay can reproduce the
environment choices of the path it replays).  Optional in-memory text mutations are used by the self-tests only.
"""
import ast
import builtins
import os
import sys
import types

import numpy as real_np

from . import core, proxies

REPO = os.environ.get('MOFUN_REPO', '/repo')
FILES = {
    'mofun.atomic_masses': 'mofun/atomic_masses.py',
    'mofun.uff4mof': 'mofun/uff4mof.py',
    'mofun.helpers': 'mofun/helpers.py',
    'mofun.atoms': 'mofun/atoms.py',
    'mofun.mofun': 'mofun/mofun.py',
    'mofun.detect_bonds': 'mofun/detect_bonds.py',
    'mofun.rough_uff': 'mofun/rough_uff.py',
    'mofun.cli.mofun_cli': 'mofun/cli/mofun_cli.py',
}


class MutationNotApplicable(Exception):
    pass


class RealNPRandomProxy:
    """real numpy with np.random.random routed through the choice source (replay mode)"""

    def __getattr__(self, n):
        return getattr(real_np, n)

    @property
    def random(self):
        return proxies.NPRANDOM


class ModuleSet:
    def __init__(self, mode='sym', mutate=None, fmt=False, stubs=None, stub_random=True, builtin_overrides=None,
                 math_proxy=None):
        """mutate: list of (module name, old text, new text); stubs: extra import-name -> object map (both modes)"""
        assert mode in ('sym', 'real')
        self.mode = mode
        self.mutate = list(mutate or [])
        self.fmt = fmt
        self.stubs = dict(stubs or {})
        self.stub_random = stub_random
        self.builtin_overrides = dict(builtin_overrides or {})
        self.mods = {}
        self.sources = {}
        self.fmt_sites = 0
        self.fmtmodel = None
        if fmt:
            from . import fmtmodel
            self.fmtmodel = fmtmodel
        if mode == 'sym':
            self.np = proxies.NPProxy(fmt=self.fmtmodel if fmt else None)
            self.math = math_proxy or proxies.MATH
        else:
            self.np = RealNPRandomProxy() if stub_random else real_np
            self.math = math_proxy
        self._pkg = None
        self._used_mut = set()

    # ---------------------------------------------------------------- import redirection
    def _imp(self, name, globals=None, locals=None, fromlist=(), level=0):
        if name in self.stubs:
            return self.stubs[name]
        if name == 'mofun' or name.startswith('mofun.'):
            if name == 'mofun':
                return self.package()
            if name == 'mofun.cli':
                return types.SimpleNamespace(mofun_cli=self.get('mofun.cli.mofun_cli'))
            m = self.get(name)
            if fromlist:
                return m
            return self.package()
        if name == 'random' and self.stub_random:
            return proxies.RANDOM
        if self.mode == 'sym':
            if name == 'numpy':
                return self.np
            if name == 'numpy.linalg':
                return proxies.LINALG if fromlist else self.np
            if name == 'math':
                return self.math
            if name == 'scipy.spatial.distance':
                return proxies.DISTANCE
            if name == 'scipy.spatial':
                return proxies.SPATIAL
            if name == 'scipy.linalg':
                return proxies.SCIPY_LINALG
            if name == 'scipy.spatial.transform':
                return proxies.TRANSFORM
        else:
            if name == 'numpy' and self.stub_random:
                return self.np
            if name == 'math' and self.math is not None:
                return self.math
        return builtins.__import__(name, globals, locals, fromlist, level)

    def package(self):
        """stand-in for `import mofun` (mofun/__init__.py: from mofun.mofun import *; Atoms; ATOMIC_MASSES)"""
        if self._pkg is None:
            pkg = types.ModuleType('mofun')
            self._pkg = pkg
            mm = self.get('mofun.mofun')
            for k, v in mm.__dict__.items():
                if not k.startswith('_'):
                    setattr(pkg, k, v)
            pkg.Atoms = self.get('mofun.atoms').Atoms
            pkg.ATOMIC_MASSES = self.get('mofun.atomic_masses').ATOMIC_MASSES
            pkg.mofun = mm
            pkg.atoms = self.get('mofun.atoms')
            pkg.helpers = self.get('mofun.helpers')
        return self._pkg

    def get(self, modname):
        if modname in self.mods:
            return self.mods[modname]
        path = os.path.join(REPO, FILES[modname])
        src = open(path).read()
        self.sources[modname] = src
        for (mn, old, new) in self.mutate:
            if mn == modname:
                if old not in src:
                    raise MutationNotApplicable(f"self-test mutation target not found in {modname}: {old!r}")
                src = src.replace(old, new)
                self._used_mut.add((mn, old))
        m = types.ModuleType(modname)
        ns = m.__dict__
        b = dict(builtins.__dict__)
        b['__import__'] = self._imp
        b.update(self.builtin_overrides)
        ns.update({'__name__': modname, '__file__': path, '__builtins__': b})
        code = src
        if not self.fmt and self.mode == 'sym':
            # outside the text-I/O harnesses a "%8.5f" % x with a symbolic x only ever builds a message (error text, verbose output):
            # the same single rewrite, with a formatter that renders symbolic arguments as text instead of calling float() on them
            from . import fmtmodel as _fm
            rw = _fm.Rewriter()
            tree = rw.visit(ast.parse(src))
            ast.fix_missing_locations(tree)
            code = tree
            ns['__symfmt__'] = _fm.message_fmt
        if self.fmt:
            rw = self.fmtmodel.Rewriter()
            tree = rw.visit(ast.parse(src))
            ast.fix_missing_locations(tree)
            code = tree
            self.fmt_sites += rw.sites
            ns['__symfmt__'] = self.fmtmodel.symfmt
            if self.mode == 'sym':
                b['float'] = self.fmtmodel.sfloat
                b['int'] = self.fmtmodel.sint
        self.mods[modname] = m
        try:
            exec(compile(code, path, 'exec'), ns)
        except BaseException:
            del self.mods[modname]
            raise
        return m

    # convenience
    @property
    def helpers(self): return self.get('mofun.helpers')
    @property
    def atoms(self): return self.get('mofun.atoms')
    @property
    def mofun(self): return self.get('mofun.mofun')
    @property
    def detect_bonds(self): return self.get('mofun.detect_bonds')
    @property
    def rough_uff(self): return self.get('mofun.rough_uff')
    @property
    def cli(self): return self.get('mofun.cli.mofun_cli')
    @property
    def Atoms(self): return self.atoms.Atoms


def functions_encoded(ms):
    return sorted(ms.mods.keys())
