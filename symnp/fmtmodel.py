"""format model for the text-I/O harnesses: symbolic fields travel through ordinary Python strings as
placeholder tokens; only `"lit" % args` at the writing end and float()/int()/np.array(dtype) at the parsing end are
modelled.  Everything in between (write, line iteration, split, strip, join, `in`, ==) is CPython's own str code.

  "%d"      of a symbolic int  -> token  <PUA-L>id<PUA-R>, parses back to the same integer term
  "%W.Pf"   of a symbolic real -> token, parses back to r = k/10^P with integer k and |k - x*10^P| <= 1/2
  "%s"      of a symbolic value is Unsupported (mofun only uses %s for strings)
"""
import ast
import builtins
import re

import numpy as real_np
import z3

from . import core
from .core import Sym, toz, Unsupported

L, R = '', ''
FIELDS = {}     # id -> (z3 term, conversion char, precision)
PH = re.compile(L + r'(\d+)' + R)
SPEC = re.compile(r'%(-?\d*)(?:\.(\d+))?([dfs%])')


def reset():
    FIELDS.clear()


def symfmt(fmt, args):
    if not isinstance(args, tuple):
        args = (args,)
    args = list(args)
    if not any(isinstance(a, Sym) for a in args):
        return fmt % tuple(args)
    out = []
    pos = 0
    for m in SPEC.finditer(fmt):
        out.append(fmt[pos:m.start()])
        pos = m.end()
        w, p, c = m.groups()
        if c == '%':
            out.append('%')
            continue
        a = args.pop(0)
        if isinstance(a, Sym):
            if c == 's':
                raise Unsupported("%s of a symbolic value")
            if c == 'd' and not a.isint:
                raise Unsupported("%d of a symbolic real")
            fid = len(FIELDS)
            FIELDS[fid] = (a.e, c, int(p) if p else 6)
            out.append(f"{L}{fid}{R}")
        else:
            out.append(m.group(0) % (a,))
    out.append(fmt[pos:])
    return ''.join(out)


def exact_token(x):
    """placeholder standing for the exact decimal text of a symbolic number (input side of a reader harness)"""
    if not isinstance(x, Sym):
        return repr(float(x))
    fid = len(FIELDS)
    FIELDS[fid] = (x.e, 'r', 0)
    return f"{L}{fid}{R}"


def parse_num(tok, want):
    """model of float()/int() on a token that is exactly one placeholder"""
    if not isinstance(tok, str):
        return None
    tok = tok.strip()
    m = PH.fullmatch(tok)
    if not m:
        if PH.search(tok):
            raise Unsupported(f"token is only partly a placeholder: {tok!r}")
        return None
    e, c, p = FIELDS[int(m.group(1))]
    if c == 'd':
        return Sym(e) if want == 'int' else Sym(z3.ToReal(e))
    if c == 'r':      # an exact decimal rendering of the term (as in hand-written input files): parses back to the term itself
        if want == 'int':
            raise ValueError("invalid literal for int() with base 10")
        return Sym(toz(Sym(e), True))
    if c == 'f':
        if want == 'int':
            raise ValueError("invalid literal for int() with base 10")
        k = z3.Int(f"rnd!{m.group(1)}")
        scale = 10 ** p
        x = toz(Sym(e), True)
        core.ENGINE.add(2 * (z3.ToReal(k) - x * scale) <= 1, 2 * (x * scale - z3.ToReal(k)) <= 1)
        return Sym(z3.ToReal(k) / scale)
    raise ValueError(tok)


class _SFloatMeta(type):
    def __instancecheck__(cls, inst):
        return isinstance(inst, builtins.float)


class sfloat(metaclass=_SFloatMeta):
    """stand-in for the builtin `float` inside the shim-loaded module"""

    def __new__(cls, x=0.0):
        if isinstance(x, Sym):
            return x if not x.isint else Sym(z3.ToReal(x.e))
        if isinstance(x, str):
            r = parse_num(x, 'float')
            if r is not None:
                return r
        return builtins.float(x)


class _SIntMeta(type):
    def __instancecheck__(cls, inst):
        return isinstance(inst, builtins.int)


class sint(metaclass=_SIntMeta):
    def __new__(cls, x=0, *a):
        if isinstance(x, Sym):
            if x.isint:
                return x
            raise Unsupported("int() of a symbolic real")
        if isinstance(x, str) and not a:
            r = parse_num(x, 'int')
            if r is not None:
                return r
        return builtins.int(x, *a)


def has_ph(obj):
    if isinstance(obj, str):
        return bool(PH.search(obj))
    if isinstance(obj, (list, tuple)):
        return any(has_ph(o) for o in obj)
    if isinstance(obj, real_np.ndarray) and obj.dtype.kind in 'UO':
        return any(has_ph(o) for o in obj.flat)
    return False


def conv_array(obj, dtype):
    f = sint if dtype in (int, 'int') else sfloat

    def rec(o):
        if isinstance(o, (list, tuple, real_np.ndarray)):
            return [rec(x) for x in o]
        return f(o) if isinstance(o, str) else o
    r = rec(obj)
    return real_np.array(r, dtype=object)


def message_fmt(lit, args):
    """'%' for modules that only format messages: exactly lit % args when that works; symbolic arguments that a numeric conversion
    cannot take are shown as text"""
    try:
        return lit % args
    except (Unsupported, TypeError):
        tup = args if isinstance(args, tuple) else (args,)
        lit2 = re.sub(r'%[-+ #0]*\d*(?:\.\d+)?[diouxXeEfFgG]', '%s', lit)
        return lit2 % tuple(str(a) for a in tup)


class Rewriter(ast.NodeTransformer):
    """the only source rewrite: "<literal>" % args  ->  __symfmt__("<literal>", args)"""

    def __init__(self):
        self.sites = 0

    def visit_BinOp(self, node):
        self.generic_visit(node)
        if isinstance(node.op, ast.Mod) and isinstance(node.left, ast.Constant) and isinstance(node.left.value, str):
            self.sites += 1
            return ast.copy_location(
                ast.Call(func=ast.Name(id='__symfmt__', ctx=ast.Load()), args=[node.left, node.right], keywords=[]),
                node)
        return node


def split_pieces(text):
    """split a written text into literal pieces and field ids: [str, int, str, int, ...]"""
    out = []
    pos = 0
    for m in PH.finditer(text):
        out.append(text[pos:m.start()])
        out.append(int(m.group(1)))
        pos = m.end()
    out.append(text[pos:])
    return out
