"""numpy / scipy / math / random stand-ins handed to mofun's real source when it is executed symbolically.

Rule: real numpy does all shape work on dtype=object arrays; only the entry points that would need a concrete
truth value, index or C-level float are overridden.  With purely concrete arguments every function below
defers to the real library, so the proxies are transparent in concrete mode (checked by selftest.py).
"""
import itertools
import math as real_math
import types

import numpy as real_np
import z3

from . import core
from .core import Sym, SBool, SymSqrt, Unsupported, toz, mkbool, has_sym, Fraction


# ------------------------------------------------------------------------------------------------ helpers
def try_const(x):
    """unique value of x under the current path condition (python number) or None"""
    if isinstance(x, (Sym,)):
        return core.ENGINE.unique_value(x.e)
    if isinstance(x, SymSqrt):
        v = core.ENGINE.unique_value(x.rad)
        return None if v is None else float(v) ** 0.5
    return x


def conc_scalar(x, what="value"):
    c = try_const(x)
    if c is None:
        if getattr(core.ENGINE, 'allow_realise', False):
            return core.ENGINE.realise(x.e)
        raise Unsupported(f"symbolic {what} reaches a C-level kernel: {x}")
    return c


def conc_arr(a, what="array"):
    a = real_np.asarray(a)
    if a.dtype != object:
        return a
    out = real_np.empty(a.shape, dtype=float)
    for idx, v in real_np.ndenumerate(a):
        out[idx] = float(conc_scalar(v, what))
    return out


def _to_int_terms(a):
    """dtype=int conversion of an object array: real-sorted terms are truncated toward zero (ToInt(ToReal(x)) folds to x)"""
    out = a.copy()
    for idx, v in real_np.ndenumerate(a):
        if isinstance(v, Sym) and not v.isint:
            out[idx] = core.mk(z3.If(v.e >= 0, z3.ToInt(v.e), -z3.ToInt(-v.e)))
        elif isinstance(v, (float, Fraction)) or (type(v).__module__ == 'numpy' and 'float' in type(v).__name__):
            out[idx] = int(v)
    return out


def _plain(x):
    """an object array that holds no symbolic value any more (differences cancelled the symbols) as the float array numpy's ufuncs need"""
    if isinstance(x, real_np.ndarray) and x.dtype == object and not has_sym(x):
        return x.astype(float)
    return x


def objarr(a):
    a = real_np.asarray(a)
    return a if a.dtype == object else a.astype(object)


# ------------------------------------------------------------------------------------------------ numpy
class NPProxy:
    """numpy stand-in"""

    def __init__(self, fmt=None):
        self._fmt = fmt            # fmtmodel module when the text-I/O model is active

    def _dt(self, d):
        if self._fmt is not None:
            if d is self._fmt.sfloat:
                return float
            if d is self._fmt.sint:
                return int
        return d

    def __getattr__(self, name):
        f = getattr(real_np, name)
        if self._fmt is not None and callable(f) and not isinstance(f, type):
            def w(*a, **k):
                if 'dtype' in k:
                    k['dtype'] = self._dt(k['dtype'])
                return f(*a, **k)
            return w
        return f

    def array(self, obj, dtype=None, ndmin=0, **kw):
        dtype = self._dt(dtype)
        if self._fmt is not None and dtype in (int, float) and self._fmt.has_ph(obj):
            return self._fmt.conv_array(obj, dtype)
        if has_sym(obj):
            a = real_np.array(obj, dtype=object, ndmin=ndmin)
            if dtype is int or dtype == 'int':
                a = _to_int_terms(a)
            return a
        return real_np.array(obj, dtype=dtype, ndmin=ndmin, **kw)

    def asarray(self, obj, dtype=None, **kw):
        dtype = self._dt(dtype)
        if has_sym(obj):
            return real_np.asarray(obj, dtype=object)
        return real_np.asarray(obj, dtype=dtype, **kw)

    def zeros(self, shape, dtype=float, **kw):
        return real_np.zeros(shape, dtype=self._dt(dtype), **kw)

    def empty(self, shape, dtype=float, **kw):
        # a buffer that the code fills afterwards (preallocate-and-assign): with a floating dtype it must be able to hold symbolic
        # values, so it is an object array of 0.0 while an engine is active; an INTEGER buffer stays a real integer array - assigning a
        # symbolic real into it goes through Sym.__int__ (truncation toward zero as a solver-driven case split), which is what numpy does
        dt = real_np.dtype(self._dt(dtype))
        if core.ENGINE is not None and dt.kind == 'f':
            a = real_np.empty(shape, dtype=object)
            a.fill(0.0)
            return a
        return real_np.empty(shape, dtype=dt, **kw)

    def empty_like(self, a, dtype=None, **kw):
        return self.empty(real_np.shape(a), dtype=(real_np.asarray(a).dtype if dtype is None else dtype)) if real_np.asarray(a).dtype != object or dtype is not None \
            else real_np.empty_like(a)

    def delete(self, arr, obj, axis=None):
        if has_sym(obj):
            obj = [int(i) for i in obj] if isinstance(obj, (list, tuple, real_np.ndarray)) else int(obj)
        return real_np.delete(arr, obj, axis=axis)

    def _int_concrete(self, a, what):
        # numpy picks a different algorithm for integer arrays than for object arrays (lookup table / sort-based / loop), so
        # set-membership routines are run on real integer arrays: symbolic integers are concretised (solver-enumerated paths)
        if not has_sym(a):
            return a
        o = real_np.asarray(a, dtype=object)
        flat = []
        for x in o.flat:
            if isinstance(x, Sym) and not x.isint:
                raise Unsupported(f"{what} on symbolic reals")
            flat.append(int(x))
        return real_np.array(flat, dtype=int).reshape(o.shape)

    def isin(self, element, test_elements, **kw):
        return real_np.isin(self._int_concrete(element, 'isin'), self._int_concrete(test_elements, 'isin'), **kw)

    def unique(self, ar, *a, **kw):
        # (with axis=... numpy refuses object arrays; integer content is concretised as for the other set routines)
        o = real_np.asarray(ar, dtype=object) if has_sym(ar) else None
        if o is not None and any(isinstance(x, Sym) and not x.isint for x in o.flat):
            return self._unique_real_rows(o, *a, **kw)
        return real_np.unique(self._int_concrete(ar, 'unique'), *a, **kw)

    def _unique_real_rows(self, o, return_index=False, return_inverse=False, return_counts=False, axis=None, **kw):
        """np.unique on symbolic reals: lexicographic sort (comparisons fork through the solver, exactly as python's sorted on tuples
        does) and removal of rows that are equal; the first occurrence in the input represents its class, as numpy's stable sort does"""
        if return_inverse or return_counts or kw:
            raise Unsupported("np.unique(return_inverse / return_counts) on symbolic reals")
        if axis is None:
            rows = [(x,) for x in o.flat]
        elif axis == 0 and o.ndim == 2:
            rows = [tuple(r) for r in o]
        else:
            raise Unsupported("np.unique on symbolic reals along this axis")
        order = sorted(range(len(rows)), key=lambda i: rows[i] + (i,))
        keep = []
        for i in order:
            if keep and all(bool(a_ == b_) for a_, b_ in zip(rows[keep[-1]], rows[i])):
                continue
            keep.append(i)
        vals = real_np.empty((len(keep),) + ((o.shape[1],) if axis == 0 else ()), dtype=object)
        for k, i in enumerate(keep):
            if axis == 0:
                for c in range(o.shape[1]):
                    vals[k, c] = rows[i][c]
            else:
                vals[k] = rows[i][0]
        return (vals, real_np.array(keep, dtype=int)) if return_index else vals

    def setdiff1d(self, ar1, ar2, **kw):
        return real_np.setdiff1d(self._int_concrete(ar1, 'setdiff1d'), self._int_concrete(ar2, 'setdiff1d'), **kw)

    def intersect1d(self, ar1, ar2, **kw):
        return real_np.intersect1d(self._int_concrete(ar1, 'intersect1d'), self._int_concrete(ar2, 'intersect1d'), **kw)

    def union1d(self, ar1, ar2):
        return real_np.union1d(self._int_concrete(ar1, 'union1d'), self._int_concrete(ar2, 'union1d'))

    def in1d(self, ar1, ar2, **kw):
        return real_np.in1d(self._int_concrete(ar1, 'in1d'), self._int_concrete(ar2, 'in1d'), **kw)

    def take(self, a, indices, axis=None, **kw):
        if has_sym(indices):
            indices = [int(i) for i in real_np.asarray(indices, dtype=object).flat]
        return real_np.take(a, indices, axis=axis, **kw)

    def arccos(self, x):
        if has_sym(x):
            x = float(conc_scalar(x, "arccos argument")) if not isinstance(x, real_np.ndarray) else conc_arr(x)
        elif isinstance(x, Fraction):
            x = float(x)
        return real_np.arccos(x)

    def sin(self, x):
        if has_sym(x):
            x = float(conc_scalar(x, "sin argument"))
        elif isinstance(x, Fraction):
            x = float(x)
        return real_np.sin(x)

    def cos(self, x):
        if has_sym(x):
            x = float(conc_scalar(x, "cos argument"))
        elif isinstance(x, Fraction):
            x = float(x)
        return real_np.cos(x)

    def sqrt(self, x):
        if isinstance(x, Sym):
            return core.sym_sqrt(x)
        if isinstance(x, Fraction):
            x = float(x)
        return real_np.sqrt(x)

    def rad2deg(self, x):
        if has_sym(x):
            x = float(conc_scalar(x, "rad2deg argument"))
        return real_np.rad2deg(x)

    def round(self, x, decimals=0, **kw):
        if has_sym(x) and decimals == 0:
            a = objarr(x)
            out = real_np.empty(a.shape, dtype=object)
            for idx, v in real_np.ndenumerate(a):
                out[idx] = real_np.float64(round(v))
            return out if a.shape else out[()]
        return real_np.round(_plain(x), decimals, **kw)

    def rint(self, x):
        return self.round(x)

    def around(self, x, decimals=0, **kw):
        return self.round(x, decimals, **kw)

    def floor(self, x):
        if has_sym(x):
            a = objarr(x)
            out = real_np.empty(a.shape, dtype=object)
            for idx, v in real_np.ndenumerate(a):
                out[idx] = real_np.float64(real_math.floor(v))
            return out if a.shape else out[()]
        return real_np.floor(_plain(x))

    def ceil(self, x):
        if has_sym(x):
            a = objarr(x)
            out = real_np.empty(a.shape, dtype=object)
            for idx, v in real_np.ndenumerate(a):
                out[idx] = real_np.float64(real_math.ceil(v))
            return out if a.shape else out[()]
        return real_np.ceil(_plain(x))

    def cross(self, a, b):
        a = real_np.asarray(a)
        b = real_np.asarray(b)
        if a.dtype != object and b.dtype != object:
            return real_np.cross(a, b)
        return real_np.array([a[1] * b[2] - a[2] * b[1], a[2] * b[0] - a[0] * b[2], a[0] * b[1] - a[1] * b[0]],
                             dtype=object)

    def isclose(self, a, b, rtol=1e-5, atol=1e-8):
        a = real_np.asarray(a)
        b = real_np.asarray(b)
        if not has_sym(a) and not has_sym(b):
            return real_np.isclose(a.astype(float), b.astype(float), rtol, atol)
        a_, b_ = real_np.broadcast_arrays(objarr(a), objarr(b))
        out = real_np.empty(a_.shape, dtype=bool)
        for idx in real_np.ndindex(a_.shape):
            x, y = a_[idx], b_[idx]
            out[idx] = bool(abs(x - y) <= atol + rtol * abs(y))
        return out

    def allclose(self, a, b, rtol=1e-5, atol=1e-8):
        a = real_np.asarray(a)
        b = real_np.asarray(b)
        if not (has_sym(a) or has_sym(b) or isinstance(atol, Sym)):
            return real_np.allclose(a.astype(float), b.astype(float), rtol, atol)
        a_, b_ = real_np.broadcast_arrays(objarr(a), objarr(b))
        for x, y in zip(a_.flat, b_.flat):
            if not (abs(x - y) <= atol + rtol * abs(y)):
                return False
        return True

    @property
    def linalg(self):
        return LINALG

    @property
    def random(self):
        return NPRANDOM


def sym_norm(v, axis=None):
    v = real_np.asarray(v)
    if v.dtype != object or not has_sym(v):
        if v.dtype == object:
            v = v.astype(float)
        return real_np.linalg.norm(v, axis=axis)
    if axis is not None:
        return real_np.array([sym_norm(r) for r in (v if axis == 1 else v.T)], dtype=object)
    return core.sym_sqrt(core.SUM([x * x for x in v.flat]))


def _inv(a):
    """inverse of a concrete matrix, EXACT over the rationals (the doubles of the input are taken as exact values):
    IEEE rounding is not modelled, and an inexact inverse would leave 1e-16*t residues that make every later
    distance computation nonlinear in the symbolic shift"""
    o = real_np.asarray(a, dtype=object) if has_sym(a) else None
    if o is not None and o.shape == (3, 3) and all(not isinstance(o[i, j], Sym) and float(o[i, j]) == 0.0 for i in range(3) for j in range(3) if i != j):
        # a diagonal matrix with symbolic entries (the axis world's cell diag(a, 10, 10)): the inverse is the diagonal of reciprocals
        out = real_np.zeros((3, 3), dtype=object)
        for i in range(3):
            out[i, i] = 1 / o[i, i]
        return out
    m = conc_arr(a, "matrix to invert")
    if m.shape != (3, 3):
        return real_np.linalg.inv(m)
    F = [[Fraction(float(x)) for x in row] for row in m]
    det = (F[0][0] * (F[1][1] * F[2][2] - F[1][2] * F[2][1]) - F[0][1] * (F[1][0] * F[2][2] - F[1][2] * F[2][0])
           + F[0][2] * (F[1][0] * F[2][1] - F[1][1] * F[2][0]))
    if det == 0:
        return real_np.linalg.inv(m)
    out = real_np.empty((3, 3), dtype=object)
    for i in range(3):
        for j in range(3):
            a_, b_ = [r for r in range(3) if r != j], [c for c in range(3) if c != i]
            cof = F[a_[0]][b_[0]] * F[a_[1]][b_[1]] - F[a_[0]][b_[1]] * F[a_[1]][b_[0]]
            out[i, j] = ((-1) ** (i + j)) * cof / det
    return out


def _det(a):
    return real_np.linalg.det(conc_arr(a, "matrix for det"))


LINALG = types.SimpleNamespace(norm=sym_norm, inv=_inv, det=_det)


class _NPRandom:
    """np.random stand-in: `random(3)` returns one of a few fixed non-degenerate vectors (nondeterministic choice)"""
    VECS = [real_np.array([0.3745401188473625, 0.9507143064099162, 0.7319939418114051]),
            real_np.array([0.9, 0.05, 0.1]), real_np.array([0.02, 0.07, 0.99])]

    def random(self, n=None):
        if n != 3:
            raise Unsupported("np.random.random(n != 3)")
        ctx = CHOICES
        i = ctx.choose(len(self.VECS), 'nprandom')
        return self.VECS[i].copy()

    def seed(self, *a):
        pass


NPRANDOM = _NPRandom()


# ------------------------------------------------------------------------------------------------ scipy
def cdist(a, b, metric='euclidean'):
    a = real_np.asarray(a)
    b = real_np.asarray(b)
    if not has_sym(a) and not has_sym(b):
        from scipy.spatial.distance import cdist as real
        return real(a.astype(float), b.astype(float), metric)
    if metric not in ('cityblock', 'sqeuclidean', 'euclidean'):
        raise Unsupported(metric)
    # rows without a symbolic coordinate are paired by the real scipy routine; only pairs that involve a symbolic row build terms (keeps
    # structures of hundreds of concrete atoms with a few symbolic ones cheap)
    from scipy.spatial.distance import cdist as real
    sa = [any(isinstance(v, Sym) for v in x) for x in a]
    sb = [any(isinstance(v, Sym) for v in y) for y in b]
    fa = real_np.array([[0.0 if isinstance(v, Sym) else float(v) for v in x] for x in a], dtype=float).reshape(len(a), -1)
    fb = real_np.array([[0.0 if isinstance(v, Sym) else float(v) for v in y] for y in b], dtype=float).reshape(len(b), -1)
    out = real(fa, fb, metric).astype(object) if len(a) and len(b) else real_np.empty((len(a), len(b)), dtype=object)
    anyb = any(sb)
    for i, x in enumerate(a):
        if not sa[i] and not anyb:
            continue
        for j, y in enumerate(b):
            if not sa[i] and not sb[j]:
                continue
            if metric == 'cityblock':
                out[i, j] = core.SUM([abs(p - q) for p, q in zip(x, y)])
            elif metric == 'sqeuclidean':
                out[i, j] = core.SUM([(p - q) * (p - q) for p, q in zip(x, y)])
            elif metric == 'euclidean':
                out[i, j] = core.lazy_sqrt(core.SUM([(p - q) * (p - q) for p, q in zip(x, y)]))
    return out


DISTANCE = types.SimpleNamespace(cdist=cdist)
SPATIAL = types.SimpleNamespace(distance=DISTANCE)
SCIPY_LINALG = types.SimpleNamespace(norm=sym_norm)


class RW:
    """wrapper of a real scipy Rotation: applies to (unique-valued) symbolic vectors, result as object array"""

    def __init__(s, r):
        s.r = r

    def apply(s, v):
        v = real_np.asarray(v)
        sym = v.dtype == object
        out = s.r.apply(conc_arr(v, "vector to rotate"))
        return out.astype(object) if sym else out

    def __mul__(s, o):
        return RW(s.r * o.r)

    def as_quat(s):
        return s.r.as_quat()

    def as_matrix(s):
        return s.r.as_matrix()

    def inv(s):
        return RW(s.r.inv())

    def __deepcopy__(s, memo):
        return s


class RProxy:
    from scipy.spatial.transform import Rotation as _R

    @classmethod
    def identity(cls):
        return RW(cls._R.identity())

    @classmethod
    def from_quat(cls, q):
        return RW(cls._R.from_quat(conc_arr(real_np.array(list(q), dtype=object), "quaternion")))


TRANSFORM = types.SimpleNamespace(Rotation=RProxy)


# ------------------------------------------------------------------------------------------------ math
class MathProxy:
    def __getattr__(self, n):
        return getattr(real_math, n)

    def isclose(self, a, b, rel_tol=1e-9, abs_tol=0.0):
        if not (isinstance(a, Sym) or isinstance(b, Sym) or isinstance(abs_tol, Sym)):
            return real_math.isclose(a, b, rel_tol=rel_tol, abs_tol=abs_tol)
        d = abs(a - b)
        return (d <= abs_tol) | (d <= rel_tol * abs(a)) | (d <= rel_tol * abs(b))

    def sqrt(self, x):
        if isinstance(x, Sym):
            return core.sym_sqrt(x)
        return real_math.sqrt(x)

    def ceil(self, x):
        if isinstance(x, Sym):
            return -((-x) // 1)
        return real_math.ceil(x)


MATH = MathProxy()


# ------------------------------------------------------------------------------------------------ random
class ChoiceSource:
    """where nondeterministic environment choices come from: the engine (symbolic mode: all explored) or a
    recorded list (concrete replay)."""

    def __init__(self):
        self.mode = 'sym'
        self.recorded = []
        self.replay = []
        self.pos = 0

    def reset_sym(self):
        self.mode = 'sym'
        self.recorded = []

    def reset_replay(self, choices):
        self.mode = 'replay'
        self.replay = list(choices)
        self.pos = 0
        self.recorded = []

    def choose(self, n, label='choice'):
        if self.mode == 'sym':
            v = core.ENGINE.choose(n, label)
        else:
            v = self.replay[self.pos] if self.pos < len(self.replay) else 0
            self.pos += 1
            if v >= n:
                v = 0
        self.recorded.append(v)
        return v


CHOICES = ChoiceSource()


class RandomStub:
    """`random` stand-in: choice -> element at a nondeterministic index; sample -> a nondeterministic k-subset
    (as an ordered selection when the population is small)."""

    def choice(self, xs):
        xs = list(xs)
        return xs[CHOICES.choose(len(xs), 'random.choice')]

    def sample(self, population, k):
        population = list(population)
        k = int(k)
        if k < 0 or k > len(population):
            raise ValueError("Sample larger than population or is negative")
        if len(population) <= 3:
            combos = list(itertools.permutations(range(len(population)), k))
        else:
            combos = list(itertools.combinations(range(len(population)), k))
        c = combos[CHOICES.choose(len(combos), 'random.sample')]
        return [population[i] for i in c]

    def seed(self, *a):
        pass

    def random(self):
        raise Unsupported("random.random")


RANDOM = RandomStub()
