import argparse
import os
import sys

sys.path.insert(0, os.path.dirname(os.path.dirname(os.path.abspath(__file__))))

HARNESS = {
    'C01': 'harness.c01_find_sound', 'C02': 'harness.c02_find_complete', 'C03': 'harness.c03_find_invariant',
    'C04': 'harness.c04_replace_atoms', 'C05': 'harness.c05_place', 'C06': 'harness.c06_replace_terms',
    'C07': 'harness.c07_overlap', 'C08': 'harness.c08_roundtrip', 'C09': 'harness.c09_invariant',
    'C10': 'harness.c10_delete', 'C11': 'harness.c11_extend', 'C12': 'harness.c12_replicate',
    'C13': 'harness.c13_lmpdat', 'C14': 'harness.c14_masses', 'C15': 'harness.c15_cif', 'C16': 'harness.c16_cml',
    'C17': 'harness.c17_bonds', 'C18': 'harness.c18_uff', 'C19': 'harness.c19_terms', 'C20': 'harness.c20_cli',
}


def main():
    ap = argparse.ArgumentParser()
    ap.add_argument('prop', nargs='?')
    ap.add_argument('--tier', default=os.environ.get('VERIF_TIER', 'quick'), choices=['quick', 'thorough'])
    ap.add_argument('--only', default=None)
    ap.add_argument('--nproc', type=int, default=None)
    ap.add_argument('--replay', default=None)
    a = ap.parse_args()
    from symnp import runner
    if a.replay:
        sys.exit(runner.replay_file(a.replay))
    seed = int(os.environ.get('VERIF_SEED', '0') or 0)
    sys.exit(runner.run_check(HARNESS[a.prop], a.tier, seed, nproc=a.nproc, only=a.only))


if __name__ == '__main__':
    main()
