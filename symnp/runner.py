"""Harness runner: executes harness instances (each = one symbolic exploration of mofun's real code), replays
counterexamples on the unshimmed code, cross-validates every path concretely, applies the known-findings file,
writes the evidence file and implements the exit protocol.

A harness module provides
    PROPERTY, FUNCTIONS, BOUNDS (dict tier->text), ASSUMPTIONS (list), STUBS (list), OUTSIDE (list)
    instances(tier, seed) -> list of {'name':..., 'family':..., ...params}
    body(ctx, params)      -> runs ONE path; polymorphic in ctx.mode ('sym' | 'real')
    SELFTESTS (optional)   -> list of {'name', 'mutate': [(module, old, new)], 'instance': {...params}}
    modset_kwargs(params)  (optional) -> extra kwargs for loader.ModuleSet (fmt=True, stubs=...)
"""
import contextlib
import importlib
import io
import json
import multiprocessing
import os
import sys
import time
import traceback

import z3

from . import core, loader, proxies
from .core import Sym, SBool, Fraction

VERIF = os.path.dirname(os.path.dirname(os.path.abspath(__file__)))
EXIT_OK, EXIT_VIOLATION, EXIT_HARNESS = 0, 1, 3


class Violation(Exception):
    pass


class RequireFailed(BaseException):
    def __init__(self, label, detail=None):
        super().__init__(label)
        self.label = label
        self.detail = detail


class Ctx:
    """what a harness body sees.  mode 'sym': inputs are symbolic; mode 'real': inputs come from `inputs`."""

    def __init__(self, mode, ms, inputs=None, engine=None, twin=False):
        self.mode = mode
        self.ms = ms
        self.np = ms.np if mode == 'sym' else __import__('numpy')
        self.inputs = inputs or {}
        self.E = engine
        self.vars = {}           # name -> Sym (sym mode)
        self.requires = []       # (label, cond)
        self.failed = []         # labels failed (real mode)
        self.observed = {}       # key -> value
        self.notes = {}
        self.twin = twin

    @property
    def sym(self):
        return self.mode == 'sym'

    # ---- inputs
    def real(self, name, lo=None, hi=None, hi_strict=True):
        if self.mode == 'real':
            return float(self.inputs[name])
        v = core.Real(name, lo, hi, hi_strict)
        self.vars[name] = v
        return v

    def int(self, name, lo=None, hi=None):
        if self.mode == 'real':
            return int(self.inputs[name])
        v = core.Int(name, lo, hi)
        self.vars[name] = v
        return v

    def assume(self, cond):
        if self.mode == 'real':
            if not bool(cond):
                raise core.PathAbort()
            return
        self.E.assume(cond)

    def choose(self, n, label='choice'):
        return proxies.CHOICES.choose(n, label)

    def arr(self, x):
        """array of harness-built values: object dtype in sym mode, float/int otherwise"""
        import numpy as np
        if self.mode == 'sym':
            return np.array(x, dtype=object)
        return np.array(x)

    # ---- outputs
    def require(self, label, cond, detail=None):
        """an obligation of the property on this path"""
        if self.mode == 'real':
            ok = bool(cond)
            if not ok:
                self.failed.append((label, detail))
            return ok
        self.requires.append((label, cond, detail))
        return True

    def fail(self, label, detail=None):
        """unconditional failure on this path (e.g. wrong shape, unexpected exception)"""
        return self.require(label, False, detail)

    def valid(self, cond):
        """meta-level query used while building an oracle: does cond hold on the whole current path region?"""
        if self.mode == 'real':
            return bool(cond)
        good, _ = self.E.prove(cond)
        return good

    def observe(self, key, value):
        self.observed[key] = value

    def note(self, **kw):
        self.notes.update(kw)


def _jsonable(v):
    if isinstance(v, Fraction):
        return float(v)
    if isinstance(v, (int, float, str, bool)) or v is None:
        return v
    if isinstance(v, (list, tuple)):
        return [_jsonable(x) for x in v]
    if isinstance(v, dict):
        return {str(k): _jsonable(x) for k, x in v.items()}
    try:
        import numpy as np
        if isinstance(v, np.ndarray):
            return _jsonable(v.tolist())
        if isinstance(v, np.generic):
            return v.item()
    except Exception:
        pass
    return str(v)


def model_inputs(model, ctx):
    out = {}
    for name, s in ctx.vars.items():
        v = model.eval(s.e, model_completion=True)
        c = core.const_value(v, approx=True)
        if c is None:
            c = 0
        out[name] = int(c) if s.isint else float(c)
    return out


def eval_under(model, v):
    if isinstance(v, Sym):
        c = core.const_value(model.eval(v.e, model_completion=True), approx=True)
        return None if c is None else (int(c) if v.isint else float(c))
    if isinstance(v, SBool):
        r = model.eval(v.e, model_completion=True)
        return bool(z3.is_true(r))
    if isinstance(v, Fraction):
        return float(v)
    if isinstance(v, (list, tuple)):
        return [eval_under(model, x) for x in v]
    try:
        import numpy as np
        if isinstance(v, np.ndarray):
            return [eval_under(model, x) for x in v.tolist()]
        if isinstance(v, np.generic):
            return v.item()
    except Exception:
        pass
    return v


def _same(a, b, tol=1e-6):
    if isinstance(a, (list, tuple)) and isinstance(b, (list, tuple)):
        return len(a) == len(b) and all(_same(x, y, tol) for x, y in zip(a, b))
    if isinstance(a, bool) or isinstance(b, bool):
        return bool(a) == bool(b)
    if isinstance(a, (int, float)) and isinstance(b, (int, float)):
        if isinstance(a, int) and isinstance(b, int):
            return a == b
        return abs(float(a) - float(b)) <= tol * max(1.0, abs(float(a)))
    return a == b


# -------------------------------------------------------------------------------------------------- per instance
_MS_CACHE = {}


def get_modsets(hmod, params, mutate):
    kw = hmod.modset_kwargs(params) if hasattr(hmod, 'modset_kwargs') else {}
    key = (hmod.__name__, json.dumps(kw.get('key', None), sort_keys=True, default=str),
           json.dumps(mutate, sort_keys=True), bool(kw.get('fmt')))
    if key not in _MS_CACHE:
        kws = {k: v for k, v in kw.items() if k not in ('key', 'real_stubs')}
        sym = loader.ModuleSet('sym', mutate=mutate, **kws)
        kwr = dict(kws)
        if 'real_stubs' in kw:
            kwr['stubs'] = kw['real_stubs']
        kwr.pop('math_proxy', None)
        real = loader.ModuleSet('real', mutate=mutate, **kwr)
        _MS_CACHE[key] = (sym, real)
    return _MS_CACHE[key]


def run_real(hmod, params, ms_real, inputs, choices):
    """one concrete execution of the harness body on the real libraries; returns (failed labels, observed, error)"""
    proxies.CHOICES.reset_replay(choices)
    core.set_engine(None)
    ctx = Ctx('real', ms_real, inputs=inputs)
    err = None
    try:
        with contextlib.redirect_stderr(io.StringIO()), contextlib.redirect_stdout(io.StringIO()):
            hmod.body(ctx, params)
    except core.PathAbort:
        err = 'assumption-violated'
    except Exception as ex:   # the real code raised where the harness did not expect it
        err = f"{type(ex).__name__}: {ex}"
        tb = traceback.extract_tb(ex.__traceback__)
        if any('/mofun/' in f.filename and f.filename.startswith(loader.REPO) for f in tb):
            # raised inside (or below) mofun's own code on a concrete input: that is behaviour of the code under test
            err = 'mofun-raised: ' + err
        ctx.failed.append(('exception', err))
    return ctx.failed, ctx.observed, err


def run_instance(args):
    """worker: explore one instance; returns a JSON-able result dict"""
    hname, params, mutate, opts = args
    t0 = time.time()
    res = dict(name=params.get('name'), family=params.get('family', params.get('name')), params=_jsonable(params),
               violations=[], unreproduced=[], xval_ok=0, xval_mismatch=[], xval_thin=0, samples=[], error=None,
               reached=0, signatures=set(), cvc5=dict(asked=0), cvc5_disagree=[])
    try:
        hmod = importlib.import_module(hname)
        ms_sym, ms_real = get_modsets(hmod, params, mutate)
        E = core.set_engine(core.Engine(timeout_ms=opts.get('timeout_ms', 20000),
                                        max_paths=opts.get('max_paths', 200000)))
        E.deadline = time.time() + float(opts.get('budget_s', 600))
        E.allow_realise = bool(opts.get('allow_realise', False) or params.get('allow_realise', False))
        want_samples = opts.get('samples', 2)
        xval = opts.get('xval', True)
        max_viol = opts.get('max_violations', 3)
        unsupported = []

        def body(E):
            proxies.CHOICES.reset_sym()
            if ms_sym.fmtmodel is not None:
                ms_sym.fmtmodel.reset()
            ctx = Ctx('sym', ms_sym, engine=E)
            try:
                with contextlib.redirect_stderr(io.StringIO()), contextlib.redirect_stdout(io.StringIO()):
                    hmod.body(ctx, params)
            except core.Unsupported as ex:
                if E.aborted or E.inconclusive_flag or E.truncated:
                    raise
                unsupported.append(str(ex)[:200])
                raise core.Inconclusive(str(ex))
            except Exception as ex:
                if E.aborted or E.inconclusive_flag or E.truncated:
                    raise
                # the code under test raised on a feasible path: a violation candidate, confirmed by replay
                tb = traceback.extract_tb(ex.__traceback__)
                where = next((f"{os.path.basename(f.filename)}:{f.lineno}" for f in reversed(tb)
                              if '/mofun/' in f.filename), '')
                if not where and not isinstance(ex, (AssertionError,)):
                    raise
                ctx.requires = [('exception', False, f"{type(ex).__name__}: {ex} at {where}")]
            choices = list(proxies.CHOICES.recorded)
            res['reached'] += 1
            sig = tuple(d['v'] for d in E.decisions[:E.pos])
            res['signatures'].add(hash(sig))
            failed = None
            conds = [(l, c, d) for (l, c, d) in ctx.requires]
            # one joint query first; split per label only when it fails
            joint = core.AND(*[c for _, c, _ in conds]) if conds else True
            try:
                good, m = E.prove(joint)
            except core.Inconclusive:
                # the solver gave up on this path's obligation.  That never counts as a pass; but a harness may name concrete
                # candidate inputs (e.g. the shipped parameter table) and if the REAL code fails an obligation on one of
                # them, that is a replayed counterexample all the same.
                hints = hmod.hint_inputs(ctx, params) if hasattr(hmod, 'hint_inputs') else []
                for inputs in hints:
                    inputs = {k: inputs.get(k, 1.0) for k in ctx.vars}
                    fl, obs, err = run_real(hmod, params, ms_real, inputs, choices)
                    core.set_engine(E)
                    if fl and err != 'assumption-violated':
                        if len(res['violations']) < max_viol:
                            res['violations'].append(dict(label=fl[0][0], detail=_jsonable(fl[0][1]), sym_label='(solver unknown; hint witness)',
                                                          inputs=inputs, choices=choices, labels=[x[0] for x in fl]))
                        res['hint_witnesses'] = res.get('hint_witnesses', 0) + 1
                        return False
                raise
            if not good:
                for (l, c, d) in conds:
                    g, m1 = E.prove(c)
                    if not g:
                        failed = (l, c, d, m1)
                        break
            if failed is not None and len(res['violations']) + len(res['unreproduced']) < max_viol:
                l, c, d, m1 = failed
                notc = core.NOT(c)
                notc = core.unwrap_bool(notc)
                cands = []
                for margin in (Fraction(1, 10 ** 6), Fraction(1, 10 ** 9)):
                    rm = E.robust_model(extra=[] if notc is True else [notc], margin=margin)
                    if rm is not None:
                        cands.append(rm)
                cands.append(m1)
                confirmed = None
                tried = []
                for cm in cands:
                    inputs = model_inputs(cm, ctx)
                    tried.append(inputs)
                    fl, obs, err = run_real(hmod, params, ms_real, inputs, choices)
                    core.set_engine(E)
                    if fl:
                        confirmed = dict(label=fl[0][0], detail=_jsonable(fl[0][1]), sym_label=l,
                                         sym_detail=_jsonable(eval_under(cm, d)) if d is not None else None,
                                         inputs=inputs, choices=choices, labels=[x[0] for x in fl])
                        break
                if not confirmed and hasattr(hmod, 'hint_inputs'):
                    # the solver's witnesses sit on values (typically 0) where the real code happens to agree; the harness may name
                    # awkward concrete values for the symbolic inputs.  Whatever the REAL code does on a concrete input that meets the
                    # harness assumptions is behaviour of the code under test, so a failing hint is a replayed counterexample.
                    for hint in hmod.hint_inputs(ctx, params):
                        inputs = dict(tried[-1])
                        inputs.update({k: v for k, v in hint.items() if k in ctx.vars})
                        fl, obs, err = run_real(hmod, params, ms_real, inputs, choices)
                        core.set_engine(E)
                        if fl and err != 'assumption-violated':
                            confirmed = dict(label=fl[0][0], detail=_jsonable(fl[0][1]), sym_label=l + ' (hint witness)', sym_detail=None,
                                             inputs=inputs, choices=choices, labels=[x[0] for x in fl])
                            res['hint_witnesses'] = res.get('hint_witnesses', 0) + 1
                            break
                if confirmed:
                    res['violations'].append(confirmed)
                else:
                    res['unreproduced'].append(dict(sym_label=l, inputs=tried[:2], choices=choices))
                return False
            if failed is not None:
                return False
            # path holds for z3: every k-th proved obligation of the instance is re-decided by cvc5 on the SMT-LIB2 text
            k2 = opts.get('cvc5_every', 25)
            if k2 and conds and (res['reached'] - 1) % k2 == 0 and res['cvc5']['asked'] < opts.get('cvc5_max', 40):
                r2 = E.second_opinion(joint, opts.get('cvc5_timeout_ms', 10000))
                if r2 != 'trivial':
                    res['cvc5']['asked'] += 1
                    res['cvc5'][r2] = res['cvc5'].get(r2, 0) + 1
                    if r2 == 'sat':
                        res['cvc5_disagree'].append(dict(inputs=model_inputs(E.get_model(), ctx), choices=choices))
            # concrete cross-validation on the real code
            if xval:
                rm = E.robust_model()
                thin = rm is None
                mm = rm if rm is not None else E.get_model()
                inputs = model_inputs(mm, ctx)
                sym_obs = {k: eval_under(mm, v) for k, v in ctx.observed.items()}
                fl, obs, err = run_real(hmod, params, ms_real, inputs, choices)
                core.set_engine(E)
                obs = {k: _jsonable(eval_under(mm, v)) for k, v in obs.items()}
                mism = [k for k in sym_obs if k in obs and not _same(_jsonable(sym_obs[k]), obs[k])]
                if err == 'assumption-violated':
                    res['xval_thin'] += 1
                elif fl and not thin and (not err or err.startswith('mofun-raised: ')) and opts.get('ieee_violations', True):
                    # the path is proved over the reals, yet the IEEE execution of the REAL code on a witness that sits at least
                    # 1e-6 inside every decided comparison fails an obligation: a concrete, replayed violation of the property
                    # (rounding-dependent behaviour of the implementation), reported as such
                    if len(res['violations']) < max_viol:
                        res['violations'].append(dict(label=fl[0][0], detail=_jsonable(fl[0][1]),
                                                      sym_label='(holds over the reals; fails in the IEEE execution of the robust witness)',
                                                      inputs=inputs, choices=choices, labels=[x[0] for x in fl]))
                    res['ieee_witnesses'] = res.get('ieee_witnesses', 0) + 1
                elif fl or mism or err:
                    if thin:
                        res['xval_thin'] += 1
                    else:
                        res['xval_mismatch'].append(dict(inputs=inputs, choices=choices, failed=[x[0] for x in fl],
                                                         mismatched=mism, error=err,
                                                         sym={k: _jsonable(sym_obs[k]) for k in mism},
                                                         real={k: obs[k] for k in mism}))
                else:
                    res['xval_ok'] += 1
                if len(res['samples']) < want_samples:
                    res['samples'].append(dict(instance=params.get('name'), witness_inputs=inputs, choices=choices,
                                               proved=sorted(set(l for l, _, _ in conds))[:12],
                                               observed={k: obs.get(k) for k in list(obs)[:6]},
                                               notes=_jsonable(ctx.notes)))
            elif len(res['samples']) < want_samples:
                mm = E.get_model()
                res['samples'].append(dict(instance=params.get('name'), witness_inputs=model_inputs(mm, ctx),
                                           choices=choices, proved=sorted(set(l for l, _, _ in conds))[:12],
                                           notes=_jsonable(ctx.notes)))
            return True

        E.explore(body)
        res.update(E.stats())
        res['cvc5_s'] = round(getattr(E, 't2', 0.0), 2)
        res['unsupported'] = unsupported[:5]
        res['n_unsupported'] = len(unsupported)
    except BaseException as ex:
        res['error'] = f"{type(ex).__name__}: {ex}\n" + traceback.format_exc()[-3000:]
        try:
            res.update(core.ENGINE.stats())
        except Exception:
            pass
    res['distinct_paths'] = len(res.pop('signatures'))
    res['wall_s'] = round(time.time() - t0, 2)
    return res


# -------------------------------------------------------------------------------------------------- whole check
def load_known_findings():
    p = os.path.join(VERIF, 'known_findings.json')
    if not os.path.exists(p):
        return []
    return json.load(open(p)).get('findings', [])


def match_finding(findings, prop, family, viol):
    for f in findings:
        if f.get('kind') != 'finding' or f.get('property') != prop:
            continue
        mt = f.get('match', {})
        if mt.get('family') and mt['family'] != family:
            continue
        if mt.get('label') and mt['label'] not in viol.get('labels', [viol.get('label')]):
            continue
        return f
    return None


def run_check(hname, tier, seed, nproc=None, only=None, verbose=False):
    hmod = importlib.import_module(hname)
    prop = hmod.PROPERTY
    t0 = time.time()
    insts = hmod.instances(tier, seed)
    if only:
        insts = [i for i in insts if only in i['name']]
    opts = dict(getattr(hmod, 'OPTS', {}))
    opts.update(getattr(hmod, 'OPTS_TIER', {}).get(tier, {}))
    opts.setdefault('budget_s', 600 if tier == 'quick' else 5400)
    jobs = [(hname, p, [], opts) for p in insts]
    # self-tests (in-memory mutations of the source text; /repo is never touched)
    st_jobs = []
    for st in getattr(hmod, 'SELFTESTS', []):
        if tier == 'quick' and not st.get('quick'):
            continue
        p = dict(st['instance'])
        p['name'] = 'selftest:' + st['name']
        o = dict(opts)
        o.update(xval=False, samples=0, max_violations=1)
        st_jobs.append((hname, p, [list(m) for m in st['mutate']], o))
    nproc = nproc or int(os.environ.get('VERIF_NPROC', '16'))
    alljobs = jobs + st_jobs
    # longest first
    order = sorted(range(len(alljobs)), key=lambda i: -alljobs[i][1].get('cost', 1))
    results = [None] * len(alljobs)
    if nproc > 1 and len(alljobs) > 1:
        ctxm = multiprocessing.get_context('fork')
        with ctxm.Pool(min(nproc, len(alljobs)), maxtasksperchild=8) as pool:
            for i, r in zip(order, pool.imap(run_instance, [alljobs[i] for i in order], chunksize=1)):
                results[i] = r
    else:
        for i in order:
            results[i] = run_instance(alljobs[i])
    main_res = results[:len(jobs)]
    st_res = results[len(jobs):]

    findings = load_known_findings()
    harness_errors = []
    new_viol = []
    known_hits = {}
    tot = dict(paths=0, aborted_paths=0, unknown_paths=0, realised_paths=0, queries=0, solver_s=0.0,
               branch_decisions=0, concretised_decisions=0, xval_ok=0, xval_thin=0, distinct_paths=0, reached=0,
               n_unsupported=0)
    samples = []
    cv = {}
    for r in main_res:
        for k in tot:
            tot[k] += r.get(k, 0) or 0
        if r.get('error'):
            harness_errors.append(f"{r['name']}: {r['error']}")
        if r.get('truncated'):
            harness_errors.append(f"{r['name']}: exploration truncated (path or wall-clock budget exhausted): incomplete, not a pass")
        if r.get('reached', 0) == 0 and not r.get('error'):
            harness_errors.append(f"{r['name']}: no path reached the assertion (vacuous)")
        if r.get('xval_mismatch'):
            harness_errors.append(f"{r['name']}: model/implementation mismatch on a robust witness: "
                                  + json.dumps(r['xval_mismatch'][0])[:600])
        for k, v in (r.get('cvc5') or {}).items():
            cv[k] = cv.get(k, 0) + v
        cv['solver_s'] = round(cv.get('solver_s', 0.0) + (r.get('cvc5_s') or 0.0), 2)
        if r.get('cvc5_disagree'):
            harness_errors.append(f"{r['name']}: SOLVER DISAGREEMENT: z3 answered unsat, cvc5 sat on path AND NOT oracle: "
                                  + json.dumps(r['cvc5_disagree'][0])[:600])
        done = r.get('paths', 0) + r.get('unknown_paths', 0)
        if done and r.get('unknown_paths', 0) > max(0.02 * done, 0) and r.get('unknown_paths', 0) > opts.get('unknown_ok', 0):
            harness_errors.append(f"{r['name']}: {r['unknown_paths']} of {done} paths inconclusive "
                                  f"(unsupported: {r.get('unsupported')})")
        for v in r['violations']:
            f = match_finding(findings, prop, r['family'], v)
            if f:
                known_hits.setdefault(f['id'], (f, 0))
                known_hits[f['id']] = (f, known_hits[f['id']][1] + 1)
            else:
                new_viol.append((r, v))
        for u in r['unreproduced']:
            harness_errors.append(f"{r['name']}: UNREPRODUCED counterexample for '{u['sym_label']}': "
                                  + json.dumps(u['inputs'][:1])[:400])
        samples.extend(r['samples'][:1])
    selftests = []
    for (job, r) in zip(st_jobs, st_res):
        name = job[1]['name']
        if r.get('error') and 'MutationNotApplicable' in r['error']:
            selftests.append(dict(name=name, result='skipped (mutation target text not present in current source)'))
            continue
        caught = bool(r['violations'])
        weak = bool(r['unreproduced']) or bool(r.get('error'))
        unk = (r.get('unknown_paths') or 0) > 0 or r.get('truncated')
        selftests.append(dict(name=name, result='refuted' if caught else ('symbolic-only' if weak else ('inconclusive (solver unknown / budget)' if unk else 'MISSED')),
                              witness=(r['violations'][0]['inputs'] if caught else None),
                              label=(r['violations'][0]['label'] if caught else None)))
        print(f"SELFTEST {name}: {selftests[-1]['result']}")

    # replay files
    replay_dir = os.path.join(VERIF, 'replays', prop)
    out_lines = []
    if new_viol:
        os.makedirs(replay_dir, exist_ok=True)
    for n, (r, v) in enumerate(new_viol):
        path = os.path.join(replay_dir, f"{n}.json")
        json.dump(dict(property=prop, harness=hname, params=r['params'], inputs=v['inputs'], choices=v['choices'],
                       label=v['label'], detail=v.get('detail')), open(path, 'w'), indent=1)
        out_lines.append(f"VIOLATION property={prop} replay={path}")
        print(f"  instance={r['name']} failed='{v['label']}' detail={json.dumps(v.get('detail'))[:300]} "
              f"inputs={json.dumps(v['inputs'])[:300]}")
    for fid, (f, n) in known_hits.items():
        print(f"KNOWN-FINDING: property={prop} {f['text']} [{fid}; {n} witness(es) this run]")

    wall = time.time() - t0
    nontrivial = tot['distinct_paths']
    ev = dict(
        property_id=prop, tier=tier, seed=seed, level=getattr(hmod, 'LEVEL', 'model_checking'),
        coverage=dict(
            states=max(tot['paths'], 0), transitions=tot['branch_decisions'] + tot['concretised_decisions'],
            traces_validated_against_impl=tot['xval_ok'],
            samples=samples[:8] or [dict(note='no path completed')],
            evaluations=max(tot['paths'], 0), distinct_nontrivial=nontrivial,
            rule="one evaluation = one feasible path of the real code under symbolic inputs (solver-decided "
                 "branches), proved against the oracle by an unsat answer; distinct = distinct branch-decision "
                 "signature reaching the assertion",
            instances=len(main_res), functions_encoded=getattr(hmod, 'FUNCTIONS', []),
            bounds=getattr(hmod, 'BOUNDS', {}).get(tier, ''), outside_bounds=getattr(hmod, 'OUTSIDE', []),
            queries=tot['queries'], solver_s=round(tot['solver_s'], 2), unknown_paths=tot['unknown_paths'],
            realised_paths=tot['realised_paths'], infeasible_paths_pruned=tot['aborted_paths'],
            concretised_decisions=tot['concretised_decisions'], branch_decisions=tot['branch_decisions'],
            xval_boundary_thin=tot['xval_thin'], paths_reaching_assertion=tot['reached'],
            stubs=getattr(hmod, 'STUBS', []), selftests=selftests,
            cvc5_crosscheck=dict(cv, note="every k-th proved path obligation (path AND NOT oracle, SMT-LIB2 text from z3) re-decided "
                                          "by cvc5 1.4.0; 'unsat' = agrees, 'sat' would be a harness error, 'unknown' = cvc5 gave up "
                                          "within its time limit (typically nonlinear), 'unparsed' = text not accepted"),
            known_findings_hit=[fid for fid in known_hits], harness_errors=harness_errors[:10],
            per_instance=[dict(name=r['name'], paths=r.get('paths'), queries=r.get('queries'),
                               solver_s=r.get('solver_s'), wall_s=r.get('wall_s'), unknown=r.get('unknown_paths'))
                          for r in main_res][:400],
            exhaustive=False),
        assumptions=getattr(hmod, 'ASSUMPTIONS', []),
        wall_s=round(wall, 2), violations=len(new_viol))
    extra = getattr(hmod, 'evidence_extra', None)
    if extra:
        ev['coverage'].update(extra(main_res))
    if ev['coverage']['states'] < 1:
        ev['coverage']['states'] = 0
    os.makedirs(os.path.join(VERIF, 'evidence'), exist_ok=True)
    json.dump(ev, open(os.path.join(VERIF, 'evidence', f"{prop}.json"), 'w'), indent=1)
    print(f"{prop} [{tier}] instances={len(main_res)} paths={tot['paths']} reached={tot['reached']} "
          f"queries={tot['queries']} solver_s={tot['solver_s']:.1f} xval={tot['xval_ok']} thin={tot['xval_thin']} "
          f"unknown={tot['unknown_paths']} realised={tot['realised_paths']} wall={wall:.1f}s "
          f"violations={len(new_viol)} known={sum(n for _, n in known_hits.values())} "
          f"cvc5={cv.get('unsat', 0)}/{cv.get('asked', 0)}")
    for l in out_lines:
        print(l)
    if new_viol:
        return EXIT_VIOLATION
    if harness_errors:
        for h in harness_errors[:10]:
            print("HARNESS-ERROR:", h[:1500])
        return EXIT_HARNESS
    return EXIT_OK


def replay_file(path):
    d = json.load(open(path))
    hmod = importlib.import_module(d['harness'])
    _, ms_real = get_modsets(hmod, d['params'], [])
    fl, obs, err = run_real(hmod, d['params'], ms_real, d['inputs'], d['choices'])
    if fl:
        print(f"REPLAY reproduces: property={d['property']} failed={[x[0] for x in fl]} detail={_jsonable(fl[0][1])}")
        return 1
    print("REPLAY does not reproduce (property holds on this input)")
    return 0
