"""C18 - UFF parameters follow the published formulas for every type combination.
Translation validation of rough_uff.bond_params / angle_params / dihedral_params / pair_coeffs against an independent transcription
of the UFF functional forms (Rappe et al. 1992, eqs. 2-3, 6-7, 10-13, 16-17, and the LAMMPS conversions in mofun's docstrings):
the real functions run with the parameter table replaced by rows of SYMBOLIC POSITIVE REALS (one row per representative type name
of every hybridisation/element class), so one unsat answer covers every numerical table.  Compositional (nested square roots
defeat the solver): angle/torsion parameters are checked with bond_params replaced by an arbitrary positive function that is
symmetric in its two atoms - exactly what the bond_params step establishes.  cos/sin of a symbolic angle are uninterpreted
functions shared by code and oracle; sqrt is an algebraic auxiliary (y>=0, y*y=x); log acts on concrete bond orders.
A second family instantiates the real functions on the real 221-row table: every ordered pair (48 841), triples and quadruples
exhaustively per central atom / central bond class (thorough) or stratified (quick): finite, k>0, r>0, reversal-identical."""
import itertools
import math as real_math

import z3

from harness.common import *
from symnp import core, proxies

PROPERTY = 'C18'
LEVEL = 'translation_validation'
FUNCTIONS = ['mofun.rough_uff.bond_params', 'mofun.rough_uff.angle_params', 'mofun.rough_uff.dihedral_params', 'mofun.rough_uff.pair_coeffs',
             'mofun.rough_uff.guess_bond_order']
BOUNDS = {'quick': 'symbolic rows (11 positive reals each) for 14 representative type names; bond orders {guessed, 1, 1.5, 2}; torsion multiplicity '
                   'symbolic positive; all 14^2 central pairs x 4 outer classes for torsions; all central names x 6 neighbour pairs for angles; real '
                   'table: all 48 841 ordered pairs, 3 000 stratified triples, all central pairs x 4 outer classes for quadruples',
          'thorough': 'as quick with every ordered triple of the real table (10.8 M) evaluated'}
OUTSIDE = ['cos, sin, log, sqrt of concrete arguments are the platform libm (trusted)', 'positivity is decided on the real table by exhaustive '
           'instantiation, not for arbitrary rows (it is false for arbitrary rows)', 'calc_uff_atom_types (not part of the property)']
ASSUMPTIONS = ['table entries used as divisors/radicands are positive (true for the real table: checked in the instantiation family)']
STUBS = ['math.cos/sin on symbolic arguments -> uninterpreted functions (shared with the oracle)', 'math.sqrt -> algebraic auxiliary',
         'bond_params -> arbitrary positive symmetric function in the angle/torsion steps (compositional)']
OPTS = {'timeout_ms': 60000}

NAMES = ['C_3', 'N_3', 'O_3', 'S_3+2', 'Se3+2', 'C_R', 'C_2', 'N_R', 'O_2', 'C_1', 'N_1', 'Zr8f4', 'H_', 'Li', 'Pt4+2', 'Si3']
MAIN = None
COS = z3.Function('cosdeg', z3.RealSort(), z3.RealSort())
SIN = z3.Function('sindeg', z3.RealSort(), z3.RealSort())


class UFFMath(proxies.MathProxy):
    """math stand-in for rough_uff: cos/sin of a symbolic angle are uninterpreted functions"""

    def _f(self, x, UF, fn):
        if isinstance(x, Sym):
            v = core.ENGINE.unique_value(x.e)
            if v is None:
                return Sym(UF(x.e))
            # the angle is pinned on this path (e.g. theta0 == 180): use libm, and tie the uninterpreted function to that
            # value so that results computed before and after the branch agree (the "three axioms" of DESIGN.md, C18)
            val = fn(float(v))
            core.ENGINE.add(UF(x.e) == z3.RealVal(core.Fraction(val)))
            return val
        return fn(x)

    def cos(self, x):
        return self._f(x, COS, real_math.cos)

    def sin(self, x):
        return self._f(x, SIN, real_math.sin)

    def log(self, x):
        if isinstance(x, Sym):
            raise core.Unsupported("log of a symbolic value")
        return real_math.log(x)


UMATH = UFFMath()


def modset_kwargs(p):
    return dict(math_proxy=UMATH, key='uff')


def instances(tier, seed):
    out = [dict(name='sym:bond', family='bond', cost=30), dict(name='sym:pair', family='pair', cost=2),
           dict(name='bond-order-rules', family='border', cost=5), dict(name='table:pairs', family='tpairs', cost=60),
           dict(name='table:quads', family='tquads', cost=120)]
    for k in range(4):
        out.append(dict(name=f'sym:angle:{k}', family='angle', part=k, cost=60))
    for k in range(8):
        out.append(dict(name=f'sym:torsion:{k}', family='torsion', part=k, cost=60))
    nt = 8 if tier == 'quick' else 16
    for k in range(nt):
        out.append(dict(name=f'table:triples:{k}', family='ttriples', part=k, parts=nt, full=(tier == 'thorough'), cost=100 if tier == 'quick' else 3000))
    return out


def sym_table(ctx, names, tag=''):
    tab = {}
    for n in names:
        row = []
        for j in range(11):
            lo = 0.01
            v = ctx.real(f"{tag}{n.replace('+', 'p')}_{j}", lo, 1000)
            row.append(v)
        tab[n] = tuple(row)
    return tab


# ------------------------------------------------------------------ independent transcription of the UFF forms
def o_bond(tab, a1, a2, bo, sqrt):
    ri, zi, xi = tab[a1][0], tab[a1][5], tab[a1][8]
    rj, zj, xj = tab[a2][0], tab[a2][5], tab[a2][8]
    r_bo = -0.1332 * (ri + rj) * real_math.log(bo)                       # eq. 3
    d = sqrt(xi) - sqrt(xj)
    r_en = ri * rj * d * d / (xi * ri + xj * rj)                        # eq. 4
    rij = ri + rj + r_bo - r_en                                         # eq. 2
    k = 664.12 * zi * zj / (rij * rij * rij)                            # eq. 6
    return k / 2, rij                                                   # LAMMPS harmonic: E = K (r - r0)^2


def o_guess_bo(a1, a2):
    s = {a1, a2}
    if s & {'H_', 'F_', 'Cl', 'Br', 'I_', 'C_3', 'N_3', 'O_3'}:
        return 1
    if len(s) == 1 and s <= {'C_2', 'N_2', 'O_2'}:
        return 2
    if len(s) == 1 and s <= {'C_R', 'N_R', 'O_R'}:
        return 1.5
    return 1


def o_angle(tab, a1, a2, a3, rij, rjk, theta_deg, cosf, sinf, sqrt):
    th = theta_deg * 2 * real_math.pi / 360
    c = cosf(th)
    rik2 = rij * rij + rjk * rjk - 2 * rij * rjk * c
    rik = sqrt(rik2)
    zi, zk = tab[a1][5], tab[a3][5]
    k = 664.12 * (zi * zk / (rik * rik * rik * rik * rik)) * (3 * rij * rjk * (1 - c * c) - rik * rik * c)      # eq. 13
    return k, c, sinf(th)


def o_torsion(tab, names, M, bo, sqrt, main_group):
    a1, a2, a3, a4 = names
    el = [s[0:2].strip('_') for s in names]
    hy = [s[2] if len(s) > 2 else None for s in names]
    oxy = {'O', 'S', 'Se', 'Te', 'Po'}
    sp3 = lambda i: hy[i] == '3'
    sp2 = lambda i: hy[i] in ('2', 'R')
    if sp3(1) and sp3(2):
        if el[1] in oxy and el[2] in oxy:
            v1 = 2.0 if el[1] == 'O' else 6.8
            v2 = 2.0 if el[2] == 'O' else 6.8
            return ('harmonic', sqrt(v1 * v2) / M / 2, 1, 2)              # n=2, phi0=90: d = -cos(180) = +1
        return ('harmonic', sqrt(tab[a2][6] * tab[a3][6]) / M / 2, 1, 3)   # eq. 16, n=3, phi0=180: d = -cos(540) = +1
    if sp2(1) and sp2(2):
        v = 5.0 * sqrt(tab[a2][7] * tab[a3][7]) * (1 + 4.18 * real_math.log(bo)) / M     # eq. 17
        return ('harmonic', v / 2, -1, 2)
    if (sp3(1) or sp2(1)) and (sp3(2) or sp2(2)):
        if (hy[0] == '2' and hy[1] == '2') or (hy[2] == '2' and hy[3] == '2'):
            return ('harmonic', 2.0 / M / 2, 1, 3)
        if (sp3(1) and el[1] in oxy and el[2] not in oxy) or (sp3(2) and el[2] in oxy and el[1] not in oxy):
            v = 5.0 * sqrt(tab[a2][7] * tab[a3][7]) * (1 + 4.18 * real_math.log(bo)) / M
            return ('harmonic', v / 2, 1, 2)
        return ('harmonic', 1.0 / M / 2, -1, 6)
    if hy[1] == '1' or hy[2] == '1':
        return None
    if not ({el[1], el[2]} <= set(main_group)):
        return None
    return 'unsupported'


def body(ctx, p):
    global EQ
    def eq_sym(a, b):
        # first a purely syntactic decision: difference in sum-of-monomials normal form is the numeral 0 (no solver needed);
        # only otherwise the nonlinear solver is asked
        if isinstance(a, Sym) and isinstance(b, Sym):
            try:
                d = z3.simplify(core.toz(a, True) - core.toz(b, True), som=True, sort_sums=True)
                if z3.is_rational_value(d) and d.numerator_as_long() == 0:
                    return True
            except z3.Z3Exception:
                pass
        return core.EQ(a, b)
    EQ = eq_sym if ctx.sym else (lambda a, b: abs(a - b) <= 1e-9 * max(1.0, abs(a), abs(b)))
    RU = ctx.ms.rough_uff
    fam = p['family']
    main_group = ctx.ms.get('mofun.uff4mof').MAIN_GROUP_ELEMENTS
    real_tab = ctx.ms.get('mofun.uff4mof').UFF4MOF
    names = [n for n in NAMES if n in real_tab]
    sq = lambda x: core.sym_sqrt(x) if isinstance(x, Sym) else real_math.sqrt(x)
    if fam in ('bond', 'pair', 'angle', 'torsion'):
        old_tab = RU.UFF4MOF
        old_bp = RU.bond_params
        try:
            if fam == 'bond':
                for (a1, a2) in itertools.combinations_with_replacement(names[:8], 2):
                    pass
                sub = ['C_3', 'C_R', 'Zr8f4']
                tab = sym_table(ctx, sub)
                RU.UFF4MOF = tab
                for a1, a2 in itertools.product(sub, sub):
                    for bo in (None, 1, 1.5, 2):
                        k, r = RU.bond_params(a1, a2, bond_order=bo)
                        ok_, or_ = o_bond(tab, a1, a2, bo if bo is not None else o_guess_bo(a1, a2), sq)
                        ctx.require('bond force constant and length equal the UFF form (eqs. 2-6)', AND(EQ(k, ok_), EQ(r, or_)), detail=dict(a1=a1, a2=a2, bo=bo))
                        k2, r2 = RU.bond_params(a2, a1, bond_order=bo)
                        ctx.require('bond parameters identical under reversal', AND(EQ(k, k2), EQ(r, r2)), detail=dict(a1=a1, a2=a2, bo=bo))
                ctx.observe('n', 9 * 4)
            elif fam == 'pair':
                tab = sym_table(ctx, ['C_3'])
                RU.UFF4MOF = tab
                eps, sig = RU.pair_coeffs('C_3')
                ctx.require('pair coefficients: epsilon = D1, sigma = x1 * 2^(-1/6)', AND(EQ(eps, tab['C_3'][3]), EQ(sig, tab['C_3'][2] * (2 ** (-1. / 6.)))))
                # HISTORY: every look-up is evaluated on the table as it is at that moment, whatever earlier look-ups returned and whatever
                # the caller did with the values handed out before (rescaling them in place for a unit conversion, ...)
                first = RU.pair_coeffs('C_3')
                try:
                    first[0] = first[0] * 2 + 1
                    first[1] = first[1] * 0 - 1
                except TypeError:
                    pass            # an immutable result cannot be disturbed by the caller
                eps2, sig2 = RU.pair_coeffs('C_3')
                ctx.require('pair coefficients of a later look-up do not depend on what the caller did with an earlier result',
                            AND(EQ(eps2, tab['C_3'][3]), EQ(sig2, tab['C_3'][2] * (2 ** (-1. / 6.)))))
                tab2 = sym_table(ctx, ['C_3'], tag='b') if 'tag' in sym_table.__code__.co_varnames else None
                if tab2 is not None:
                    RU.UFF4MOF = tab2
                    eps3, sig3 = RU.pair_coeffs('C_3')
                    ctx.require('pair coefficients follow the table in force at the time of the call (re-parameterised row)',
                                AND(EQ(eps3, tab2['C_3'][3]), EQ(sig3, tab2['C_3'][2] * (2 ** (-1. / 6.)))))
            else:
                tab = sym_table(ctx, names)
                RU.UFF4MOF = tab
                memo = {}

                def bp_stub(a1, a2, bond_order=None, bond_order_rules=None):
                    bo = bond_order if bond_order is not None else RU.guess_bond_order(a1, a2, bond_order_rules)
                    key = (tuple(sorted((a1, a2))), bo)
                    if key not in memo:
                        memo[key] = (ctx.real(f"K_{key[0][0]}_{key[0][1]}_{bo}".replace('+', 'p'), 0.001, 10000),
                                     ctx.real(f"R_{key[0][0]}_{key[0][1]}_{bo}".replace('+', 'p'), 0.05, 50))
                    return memo[key]
                RU.bond_params = bp_stub
                cosf = UMATH.cos
                sinf = UMATH.sin
                if fam == 'angle':
                    centres = names[p['part']::4]
                    nb = [('C_3', 'H_'), ('C_R', 'C_R'), ('C_2', 'C_2'), ('O_3', 'Zr8f4'), ('N_R', 'C_R'), ('Zr8f4', 'Zr8f4')]
                    n = 0
                    # one (centre, neighbour pair) per path: keeps the number of sqrt auxiliaries per solver context small
                    ci, ni = ctx.choose(len(centres), 'centre'), ctx.choose(len(nb), 'neighbours')
                    for a2 in [centres[ci]]:
                        for a1, a3 in [nb[ni]]:
                            # decide the special-angle case first, so that code and oracle, forward and reversed call, all see the
                            # same pinned / unpinned angle
                            _special = bool(tab[a2][1] == 180.) or bool(tab[a2][1] == 120.) or bool(tab[a2][1] == 90.)
                            # bond orders: guessed, or given explicitly per bond (unequal, either way round); the reversed call
                            # names the same two bonds in the opposite order
                            bos = [None, [1.41, None], [2, 1], [1, 1.5]][ctx.choose(4, 'bond orders')]
                            if bos is None:
                                res = RU.angle_params(a1, a2, a3)
                                rev = RU.angle_params(a3, a2, a1)
                                rij, rjk = bp_stub(a1, a2)[1], bp_stub(a2, a3)[1]
                            else:
                                res = RU.angle_params(a1, a2, a3, bond_orders=list(bos))
                                rev = RU.angle_params(a3, a2, a1, bond_orders=list(bos[::-1]))
                                rij, rjk = bp_stub(a1, a2, bond_order=bos[0])[1], bp_stub(a2, a3, bond_order=bos[1])[1]
                            th = tab[a2][1]
                            k, c, s = o_angle(tab, a1, a2, a3, rij, rjk, th, cosf, sinf, sq)
                            n += 1
                            ctx.require('angle parameters identical under reversal (style and every number)',
                                        AND(res[0] == rev[0], len(res) == len(rev), *[EQ(x, y) for x, y in zip(res[1:], rev[1:])]), detail=dict(a=(a1, a2, a3)))
                            ctx.require('angle force constant equals the UFF form (eq. 13)', EQ(res[1], k), detail=dict(a=(a1, a2, a3)))
                            if res[0] == 'cosine/periodic':
                                coord4 = len(a2) > 2 and a2[2] == '3'
                                want = OR(AND(EQ(th, 180), res[2] == 1, res[3] == 1), AND(EQ(th, 120), res[2] == -1, res[3] == 3),
                                          AND(EQ(th, 90), coord4, res[2] == -1, res[3] == 2), AND(EQ(th, 90), not coord4, res[2] == 1, res[3] == 4))
                                ctx.require('cosine/periodic is selected exactly for 180/120/90 degrees with the documented (b, n)', want, detail=dict(a2=a2, b=res[2], n=res[3]))
                            else:
                                c2 = 1 / (4 * s * s)
                                ctx.require('fourier style for general angles with C0, C1, C2 of eqs. 11-12',
                                            AND(res[0] == 'fourier', NOT(OR(EQ(th, 180), EQ(th, 120), EQ(th, 90))),
                                                EQ(res[4], c2), EQ(res[3], -4 * c2 * c), EQ(res[2], c2 * (2 * c * c + 1))), detail=dict(a=(a1, a2, a3)))
                    ctx.observe('n', n)
                else:
                    cpairs = list(itertools.product(names, names))[p['part']::8]
                    M = ctx.real('M', 1, 20)
                    n = 0
                    for a2, a3 in cpairs:
                        for a1, a4 in (('C_3', 'C_3'), ('C_2', 'C_3'), ('C_3', 'C_2'), ('C_2', 'C_2')):
                            seq = (a1, a2, a3, a4)
                            for bo in (None, 1.5, 'rule'):
                                rules = None
                                if bo == 'rule':
                                    # the central bond order comes from a user rule naming exactly the central pair
                                    rules, bo = [({'H_', 'Zr8f4'}, 3), ({a2, a3}, 1.25)], None
                                def call(s_):
                                    try:
                                        return RU.dihedral_params(*s_, num_dihedrals_about_bond=M, bond_order=bo, bond_order_rules=rules)
                                    except Exception as ex:
                                        if "we don't know how to handle this dihedral" in str(ex):
                                            return 'unsupported'
                                        raise
                                res, rev = call(seq), call(seq[::-1])
                                want = o_torsion(tab, seq, M, bo if bo is not None else (1.25 if rules else o_guess_bo(a2, a3)), sq, main_group)
                                n += 1
                                if res is None or res == 'unsupported' or want is None or want == 'unsupported':
                                    ctx.require('torsion undefined / unsupported exactly as documented, also under reversal', res == want and rev == res, detail=dict(seq=seq, got=str(res)))
                                    continue
                                ctx.require('torsion parameters equal the UFF form (eqs. 16-17 and exceptions): style, K = V/2, d, n',
                                            AND(res[0] == want[0], EQ(res[1], want[1]), res[2] == want[2], res[3] == want[3]), detail=dict(seq=seq, bo=bo))
                                ctx.require('torsion parameters identical under reversal',
                                            AND(rev is not None and rev != 'unsupported', *([rev[0] == res[0], EQ(rev[1], res[1]), rev[2] == res[2], rev[3] == res[3]]
                                                                                            if isinstance(rev, tuple) else [False])), detail=dict(seq=seq))
                    ctx.observe('n', n)
        finally:
            RU.UFF4MOF = old_tab
            RU.bond_params = old_bp
        return
    if fam == 'border':
        al = ['C_R', 'N_R', 'C_2', 'N_2', 'C_3', 'H_', 'Zr8f4', 'O_R', 'O_2', 'N_1']
        bad = []
        for a1, a2 in itertools.product(al, al):
            if RU.guess_bond_order(a1, a2) != o_guess_bo(a1, a2):
                bad.append((a1, a2, 'default'))
            for ra, rb, bo in [('C_R', 'N_R', 1.41), ('N_1', 'N_1', 2), ('N_1', 'N_2', 2.5), ('C_2', 'C_3', 1.2)]:
                rules = [({ra, rb}, bo)]
                want = bo if {a1, a2} == {ra, rb} else o_guess_bo(a1, a2)
                if RU.guess_bond_order(a1, a2, rules) != want:
                    bad.append((a1, a2, (ra, rb)))
        # angle and torsion parameters must follow the rules passed to THIS call, whatever was computed before
        for trip in [('C_R', 'C_R', 'C_R'), ('C_R', 'N_R', 'C_R'), ('C_2', 'C_2', 'O_2')]:
            base0 = RU.angle_params(*trip)
            for rules, bo in [([({trip[0], trip[1]}, 1)], 1), ([({trip[0], trip[1]}, 2)], 2)]:
                with_rules = RU.angle_params(*trip, bond_order_rules=rules)
                explicit = RU.angle_params(*trip, bond_orders=[bo if {trip[0], trip[1]} == {trip[0], trip[1]} else None, bo if {trip[1], trip[2]} == {trip[0], trip[1]} else None])
                if with_rules[0] != explicit[0] or any(abs(x - y) > 1e-9 * max(1, abs(x)) for x, y in zip(with_rules[1:], explicit[1:])):
                    bad.append((trip, 'angle rules', with_rules[1], explicit[1]))
            again = RU.angle_params(*trip)
            # default (guessed) bond orders == the documented guesses given explicitly, whatever angle was parameterised before
            for t2 in [trip, ('C_3', 'C_3', 'H_'), ('C_R', 'C_R', 'H_'), ('C_2', 'C_2', 'C_3')]:
                dflt = RU.angle_params(*t2)
                expl = RU.angle_params(*t2, bond_orders=[o_guess_bo(t2[0], t2[1]), o_guess_bo(t2[1], t2[2])])
                if dflt[0] != expl[0] or any(abs(x - y) > 1e-9 * max(1, abs(x)) for x, y in zip(dflt[1:], expl[1:])):
                    bad.append((t2, 'guessed bond orders depend on call history', dflt[1], expl[1]))
            if any(abs(x - y) > 1e-12 * max(1, abs(x)) for x, y in zip(base0[1:], again[1:])):
                bad.append((trip, 'angle not reproducible'))
        # ONE rules list object that the caller edits between calls (a rule appended, a rule's order changed): every call follows the rules as
        # they are at the time of that call
        rl = [({'C_R', 'N_R'}, 1.41)]
        first = RU.guess_bond_order('N_1', 'N_2', rl)
        rl.append(({'N_1', 'N_2'}, 2))
        second = RU.guess_bond_order('N_1', 'N_2', rl)
        rl[0] = ({'C_R', 'N_R'}, 1.2)
        third = RU.guess_bond_order('N_R', 'C_R', rl)
        del rl[:]
        fourth = RU.guess_bond_order('N_R', 'C_R', rl)
        if (first, second, third, fourth) != (o_guess_bo('N_1', 'N_2'), 2, 1.2, o_guess_bo('N_R', 'C_R')):
            bad.append(('rules list edited between calls', first, second, third, fourth))
        for k_ in range(3):      # short-lived rule lists (a freed list's identity may be reused by the next one)
            tmp = [({'C_2', 'C_3'}, 1.0 + 0.1 * k_)]
            if RU.guess_bond_order('C_3', 'C_2', tmp) != 1.0 + 0.1 * k_:
                bad.append(('fresh rules list', k_))
            del tmp
        # ONE bond-order list object (one order fixed, the other left to be guessed = None) reused for several angles: every call must guess
        # for ITS OWN types, and the caller's list must still say None afterwards
        for fixed_pos in (0, 1):
            shared = [None, None]
            shared[fixed_pos] = 1.41
            before = list(shared)
            for t2 in [('C_R', 'C_R', 'C_R'), ('H_', 'C_3', 'H_'), ('C_2', 'C_2', 'O_2'), ('C_3', 'C_3', 'H_')]:
                got = RU.angle_params(*t2, bond_orders=shared)
                fresh = [None, None]
                fresh[fixed_pos] = 1.41
                fresh[1 - fixed_pos] = o_guess_bo(t2[1 - fixed_pos], t2[2 - fixed_pos])
                want = RU.angle_params(*t2, bond_orders=fresh)
                if got[0] != want[0] or any(abs(x - y) > 1e-9 * max(1, abs(x)) for x, y in zip(got[1:], want[1:])):
                    bad.append((t2, 'reused bond-order list: guessed order taken from an earlier angle', got[1], want[1]))
                if shared != before:
                    bad.append((t2, "caller's bond-order list modified", list(shared)))
                    shared[:] = before
        ctx.observe('n', len(al) ** 2 * 5)
        ctx.require('bond orders: documented guesses; a user rule applies exactly to the pair of types it names', not bad, detail=dict(bad=bad[:5]))
        return
    # ---------------- instantiation on the real table
    T = real_tab
    allnames = list(T)
    fin = lambda x: isinstance(x, (int, float)) and x == x and abs(x) != float('inf')
    if fam == 'tpairs':
        bad = []
        for a1, a2 in itertools.product(allnames, allnames):
            for bo in (None, 1, 1.5, 2):
                k, r = RU.bond_params(a1, a2, bond_order=bo)
                k2, r2 = RU.bond_params(a2, a1, bond_order=bo)
                if not (fin(k) and fin(r) and k > 0 and r > 0 and abs(k - k2) <= 1e-9 * k and abs(r - r2) <= 1e-12 * r):
                    bad.append((a1, a2, bo, k, r))
        for a1 in allnames:
            e, s_ = RU.pair_coeffs(a1)
            if not (fin(e) and fin(s_) and s_ > 0 and e >= 0 and abs(s_ - T[a1][2] * 2 ** (-1 / 6)) < 1e-12 and e == T[a1][3]):
                bad.append((a1, 'pair'))
        ctx.observe('n', len(allnames) ** 2 * 4)
        ctx.require('real table, every ordered pair x bond order: finite, k>0, r>0, identical under reversal; pair coefficients finite', not bad, detail=dict(bad=bad[:5]))
    elif fam == 'ttriples':
        import random as _r
        bad = []
        n = 0
        cent = allnames[p['part']::p['parts']]
        rng = _r.Random(17 + p['part'])
        for a2 in cent:
            if p.get('full'):
                outer = itertools.product(allnames, allnames)
            else:
                outer = [(rng.choice(allnames), rng.choice(allnames)) for _ in range(12)] + [(a2, a2), ('H_', 'O_3'), ('C_R', 'C_R'), ('Zr8f4', 'O_2')]
            for a1, a3 in outer:
                r = RU.angle_params(a1, a2, a3)
                rr = RU.angle_params(a3, a2, a1)
                n += 1
                th = T[a2][1]
                style_ok = (r[0] == 'cosine/periodic') == (th in (180., 120., 90.))
                if not (all(fin(x) for x in r[1:]) and r[1] > 0 and style_ok and r[0] == rr[0] and all(abs(x - y) <= 1e-9 * max(1, abs(x)) for x, y in zip(r[1:], rr[1:]))):
                    bad.append((a1, a2, a3, r))
        ctx.observe('n', n)
        ctx.require('real table, triples: finite, force constant > 0, documented style, identical under reversal', not bad, detail=dict(bad=str(bad[:3])))
    elif fam == 'tquads':
        bad = []
        n = 0
        for a2, a3 in itertools.product(allnames, allnames):
            for a1, a4 in (('C_3', 'H_'), ('C_2', 'C_3'), ('C_3', 'C_2'), ('C_2', 'C_2')):
                for M in (1, 4, 9):
                    def call(s_):
                        try:
                            return RU.dihedral_params(*s_, num_dihedrals_about_bond=M)
                        except Exception as ex:
                            if "we don't know how to handle this dihedral" in str(ex):
                                return 'unsupported'
                            raise
                    r, rr = call((a1, a2, a3, a4)), call((a4, a3, a2, a1))
                    n += 1
                    if r is None or r == 'unsupported':
                        if rr != r:
                            bad.append((a1, a2, a3, a4, 'status differs under reversal'))
                        continue
                    if not (isinstance(rr, tuple) and r[0] == rr[0] and abs(r[1] - rr[1]) <= 1e-12 and r[2:] == rr[2:] and fin(r[1]) and r[1] >= 0
                            and r[2] in (1, -1) and r[3] in (2, 3, 6)):
                        bad.append((a1, a2, a3, a4, r, rr))
        ctx.observe('n', n)
        ctx.require('real table, quadruples (every central pair x outer class x multiplicity): finite, identical under reversal incl. undefined/unsupported status',
                    not bad, detail=dict(bad=str(bad[:3])))


SELFTESTS = [
    dict(name='group6-barrier-from-wrong-atom', quick=True,
         mutate=[('mofun.rough_uff', 'v2 = 2. if el[2] == "O" else 6.8', 'v2 = 2. if el[1] == "O" else 6.8')],
         instance=dict(family='torsion', part=2)),
    dict(name='rule-matches-subsets', quick=True,
         mutate=[('mofun.rough_uff', "if bond_atom_types == rule_atom_types:", "if bond_atom_types <= rule_atom_types:")],
         instance=dict(family='border')),
    dict(name='angle-sign-of-c1',
         mutate=[('mofun.rough_uff', "c1 = -4 * c2 * cos(theta0rad)", "c1 = 4 * c2 * cos(theta0rad)")],
         instance=dict(family='angle', part=0)),
    dict(name='bond-rEN-exponent',
         mutate=[('mofun.rough_uff', "(chii**0.5 - chij**0.5)**2", "(chii**0.5 - chij**0.5)")],
         instance=dict(family='bond')),
]


def hint_inputs(ctx, p):
    """candidate witnesses tried on the real code when the nonlinear solver answers unknown: the shipped table's own rows, and a
    perturbed copy (never a reason to pass; only a way to turn an inconclusive path into a replayed counterexample)"""
    real_tab = ctx.ms.get('mofun.uff4mof').UFF4MOF
    out = []
    for scale in (1.0, 1.37):
        d = {}
        for n, row in real_tab.items():
            for j in range(min(11, len(row))):
                try:
                    d[f"{n.replace('+', 'p')}_{j}"] = max(0.01, float(row[j]) * (scale if j % 2 else 1.0))
                except (TypeError, ValueError):
                    pass
        out.append(d)
    return out


def evidence_extra(main_res):
    return dict(programs=sum(1 for r in main_res), disagreements_checked=sum(len(r['violations']) + len(r['unreproduced']) for r in main_res),
                explanation='programs = harness instances, each comparing the real functions with the transcription over symbolic rows or the real table')
