"""C15 - P1 CIF files round-trip (claimed at library-stub scope).
The real save_p1_cif / load_p1_cif run against a data-model stand-in for PyCifRW's CifFile (block[tag] = value, AddLoopItem,
GetLoop(tag).keys(), has_key - case-insensitive, keys lower-cased, every value read back as its printed string; WriteOut/ReadCif
are the identity on that data model).  Symbolic: coordinates (inside, outside, on the boundary of the cell), charges, term end
points; concrete: cells from a list (orthorhombic, triclinic incl. obtuse angles), element lists, extra columns.  On the witness of
every path the same structure goes through the REAL PyCifRW (text written and parsed) with the same oracle, which validates the
stand-in; ASE's reader is compared on cell and positions there."""
import io
import re

from harness.common import *
from harness.find_common import CELLS
from symnp import core

PROPERTY = 'C15'
LEVEL = 'model_checking'
FUNCTIONS = ['mofun.atoms.Atoms.save_p1_cif', 'mofun.atoms.Atoms.load_p1_cif', 'mofun.atoms.Atoms.cell_abc_alpha_beta_gamma', "mofun.atoms.Atoms.load/save ('cif')",
             'mofun.atoms.Atoms.__init__ (elements branch, extra fields)']
BOUNDS = {'quick': 'N<=3 atoms, <=1 bond/angle/dihedral/improper with symbolic end points, 5 cells, fractional and Cartesian output, extra per-atom/'
                   'per-bond/per-angle/per-torsion columns, coordinates anywhere in (-3,3) cell units',
          'thorough': 'N<=4, two terms per kind'}
OUTSIDE = ["PyCifRW's STAR text writer, lexer and parser in symbolic mode (exercised only on the concrete witness of every path)",
           'byte identity of the unrounded _cell_length_* values across write/read cycles (IEEE: drifts in the 16th digit)', 'non-P1 symmetry handling beyond rejection']
ASSUMPTIONS = ['stand-in data model = PyCifRW 5: keys case-insensitive and reported lower-cased, values read back as strings, loops keep column order']
STUBS = ['CifFile (PyCifRW) -> data-model stand-in in symbolic mode; the real library in concrete mode']
OPTS = {'timeout_ms': 30000}

DOCS = {}


class _Loop:
    def __init__(self, names):
        self.names = names

    def keys(self):
        return list(self.names)


class CifBlock:
    def __init__(self):
        self.items = {}
        self.loops = []

    def __setitem__(self, k, v):
        self.items[k.lower()] = v

    def __getitem__(self, k):
        return self.items[k.lower()]

    def has_key(self, k):
        return k.lower() in self.items

    def keys(self):
        return list(self.items)

    def AddLoopItem(self, data):
        names, cols = data
        cols = [list(c) for c in cols]
        if len(set(len(c) for c in cols)) > 1:
            raise ValueError("loop columns of unequal length")
        for n, c in zip(names, cols):
            self.items[n.lower()] = c
        self.loops.append([n.lower() for n in names])

    def GetLoop(self, k):
        for l in self.loops:
            if k.lower() in l:
                return _Loop(l)
        raise KeyError(k)


class CifFileObj:
    def __init__(self):
        self.blocks = {}

    def __setitem__(self, k, v):
        self.blocks[k] = v

    def __getitem__(self, k):
        return self.blocks[k]

    def get_roots(self):
        return [(k, None) for k in self.blocks]

    def WriteOut(self, comment=''):
        n = len(DOCS)
        DOCS[n] = self
        return f"{comment}\nCIFDOC:{n}\n"


def _printed(v, fm):
    if isinstance(v, str):
        return v
    if isinstance(v, Sym):
        return fm.exact_token(v)
    if isinstance(v, (list, tuple, np.ndarray)):
        return [_printed(x, fm) for x in v]
    return str(v)


def make_stub(fm):
    def ReadCif(f):
        text = f.read() if hasattr(f, 'read') else open(f).read()
        m = re.search(r"CIFDOC:(\d+)", text)
        if not m:
            raise core.Unsupported("ReadCif of text that did not come from the stand-in")
        src = DOCS[int(m.group(1))]
        out = CifFileObj()
        for name, b in src.blocks.items():
            nb = CifBlock()
            nb.loops = [list(l) for l in b.loops]
            nb.items = {k: _printed(v, fm) for k, v in b.items.items()}
            out.blocks[name] = nb
        return out
    import types
    return types.SimpleNamespace(CifFile=CifFileObj, CifBlock=CifBlock, ReadCif=ReadCif)


def modset_kwargs(p):
    from symnp import fmtmodel
    return dict(fmt=True, key='cif', stubs={'CifFile': make_stub(fmtmodel)}, real_stubs={})


def instances(tier, seed):
    out = []

    def add(name, **kw):
        kw.setdefault('family', 'cif')
        out.append(dict(name=name, **kw))
    add("rt:frac:o1:bond", cell='o1', N=2, terms={'bond': 1}, fract=True, sym_ends='bond', cost=20)
    add("rt:frac:t4:boundary", cell='t4', N=2, terms={}, fract=True, boundary=True, cost=60)
    add("rt:frac:t1:angle+extra", cell='t1', N=3, terms={'angle': 1}, fract=True, extra=True, cost=60)
    add("rt:frac:t2:dihedral+improper", cell='t2', N=2, terms={'dihedral': 1, 'improper': 1}, fract=True, cost=60)
    add("rt:frac:t3:bond+angle-extra", cell='t3', N=2, terms={'bond': 1, 'angle': 1}, fract=True, extra_angle_only=True, cost=60)
    add("rt:cart:t4:bond+extra", cell='t4', N=2, terms={'bond': 1}, fract=False, extra=True, cost=30)
    add("rt:frac:tr:arbitrary-orientation", cell='tr', N=2, terms={'bond': 1}, fract=True, cost=30)
    add("rt:frac:orot:two-extra-term-columns", cell='orot', N=2, terms={'bond': 1, 'angle': 1, 'dihedral': 1}, fract=True, extra2=True, cost=30)
    add("rt:frac:t2:history:written-before-in-another-cell", cell='t2', N=2, terms={'bond': 1}, fract=True, history='written-before-in-another-cell', cell_before='o2', cost=40)
    add("rt:frac:o1:improper-without-dihedrals", cell='o1', N=2, terms={'improper': 1}, fract=True, cost=10)
    add("rt:frac:t1:extra-atom-columns-named-like-handled-tags", cell='t1', N=2, terms={'bond': 1}, fract=True, extra=True,
        extra_names=['_atom_site_label_component_0', '_atom_site_charge_method'], cost=20)
    add("rt:cart:nocell", cell=None, N=2, terms={}, fract=True, cost=5)
    # two atom types of the same element (force-field typed structure): labels must still be unique per atom
    add("rt:frac:o1:two-types-one-element", cell='o1', N=3, terms={'bond': 1, 'angle': 1}, fract=True, typed=True, cost=30)
    add("rt:frac:o2:noterms", cell='o2', N=3, terms={}, fract=True, cost=30)
    add("read:uncertainty+nonP1+boundary", family='read', cost=5)
    if tier == 'thorough':
        add("rt:frac:t1:bond2:N4", cell='t1', N=4, terms={'bond': 2}, fract=True, extra=True, cost=900)
        add("rt:frac:tr:angle+dihedral:N3", cell='tr', N=3, terms={'angle': 1, 'dihedral': 1}, fract=True, cost=600)
    return out


ELS = ['C', 'O', 'C', 'Zr']


def body(ctx, p):
    Atoms = ctx.ms.Atoms
    if p['family'] == 'read':
        return read_body(ctx, p)
    N = p['N']
    cell = None if p['cell'] is None else np.array(CELLS[p['cell']], dtype=float)
    els = ELS[:N]
    # atom 0 anywhere in (-1.2, 2.2) cell units (outside, inside, across the boundary); atom 1 in (0,1) up to the boundary (may be printed as
    # 1.0000); further atoms strictly inside: every periodic wrap is a case split, so the ranges bound the number of paths
    rng = {0: (-1.2, 2.2), 1: (0.0, 1.0) if p.get('boundary') else (0.0001, 0.9999)}
    frac = [[ctx.real(f"f{i}{c}", *rng.get(i, (0.0001, 0.9999))) for c in 'xyz'] for i in range(N)]
    q = [ctx.real(f"q{i}", -5, 5) for i in range(N)]
    if cell is not None:
        pos = [[sum(frac[i][k] * float(cell[k][c]) for k in range(3)) for c in range(3)] for i in range(N)]
    else:
        pos = [[frac[i][c] * 4.0 for c in range(3)] for i in range(N)]
    kw = {}
    xl = {}
    XN = p.get('extra_names') or ['_atom_site_occupancy', '_atom_site_note']
    if p.get('extra'):
        kw.update(extra_atom_labels=list(XN), extra_atom_fields=[[f"0.{i + 1}", f"n{i}"] for i in range(N)])
    if p.get('typed'):
        els = ['C', 'C', 'O'][:N]
        a = Atoms(atom_types=[0, 1, 2][:N], atom_type_elements=['C', 'C', 'O'], atom_type_labels=['C_R', 'C_3', 'O_2'], positions=np.zeros((N, 3)), cell=cell, **kw)
    else:
        a = Atoms(elements=els, positions=np.zeros((N, 3)), cell=cell, **kw)
    a.positions = ctx.arr(pos)
    a.charges = ctx.arr(q)
    ends = {}
    for k, n in p['terms'].items():
        ar = ARITY[k]
        if p.get('sym_ends') == k:
            ends[k] = [[ctx.int(f"{k[0]}{k[1]}{j}_{c}", 0, N - 1) for c in range(ar)] for j in range(n)]
        else:   # the writer turns end points into atom labels (a hash lookup), so symbolic ones are only enumerated: keep most concrete
            ends[k] = [[(j + c + (1 if k == 'improper' else 0)) % N for c in range(ar)] for j in range(n)]
        setattr(a, k + 's', ctx.arr(ends[k]))
        setattr(a, k + '_types', np.zeros(n, dtype=int))
        lab = []
        if p.get('extra') and k in ('bond', 'angle', 'dihedral'):
            lab = [f'_geom_{"torsion" if k == "dihedral" else k}_note']
        if p.get('extra_angle_only') and k == 'angle':
            lab = ['_geom_angle_note']
        if p.get('extra2') and k in ('bond', 'angle', 'dihedral'):
            nm = 'torsion' if k == 'dihedral' else k
            lab = [f'_geom_{nm}_type', f'_geom_{nm}_distance', f'_geom_{nm}_aaa']       # deliberately not in alphabetical order
        setattr(a, f'extra_{k}_labels', type(a.extra_atom_labels)(lab))
        setattr(a, f'extra_{k}_fields', np.array([[f"{k}{j}x{c}" for c in range(len(lab))] for j in range(n)], dtype=object).reshape((n, len(lab))))
        xl[k] = lab
    if p.get('history') == 'written-before-in-another-cell':
        # HISTORY: the same object was already written once while it still had another cell (e.g. before a cell optimisation / as the unit
        # cell of the supercell it now is); the text written now must describe the structure as it is now
        a.cell = np.array(CELLS[p['cell_before']], dtype=float)
        a.save_p1_cif(io.StringIO(), use_fract_coords=True)
        a.copy().save_p1_cif(io.StringIO(), use_fract_coords=True)
        a.cell = np.array(cell, dtype=float)
    f = io.StringIO()
    a.save_p1_cif(f, use_fract_coords=bool(p['fract']))
    text1 = f.getvalue()
    r = Atoms.load_p1_cif(io.StringIO(text1))
    ctx.observe('n', len(r.positions))
    ok = len(r.positions) == N and lengths_consistent(r)
    ctx.require('re-read structure has one atom per atom, consistent arrays', ok)
    if not ok:
        return
    ctx.require('elements and atom order reproduced', list(r.elements) == els, detail=dict(got=list(r.elements)))
    half = 0.5e-4 + 1e-9
    with core.nosimplify():
        for i in range(N):
            ctx.require('charges reproduced', close(r.charges[i], q[i], 1e-12), detail=dict(atom=i))
        if cell is not None:
            # fractional coordinates of the re-read atoms in the re-read cell (which is rebuilt from lengths and 4-decimal angles)
            rcell = np.array(r.cell, dtype=float)
            inv = np.array(ctx.ms.np.linalg.inv(rcell) if ctx.sym else np.linalg.inv(rcell))
            tol = half if p['fract'] else None
            for i in range(N):
                for k in range(3):
                    rf = sum(r.positions[i][c] * inv[c][k] for c in range(3))
                    if p['fract']:
                        d = rf - frac[i][k]
                        ctx.require('fractional coordinates reproduced modulo 1 to the printed precision and wrapped into the cell',
                                    AND(core.is_integer_within(d, half), rf >= -1e-9, rf <= 1 + 1e-9), detail=dict(atom=i, comp=k))
                    else:
                        ctx.require('Cartesian coordinates reproduced to the printed precision', close(r.positions[i][k], pos[i][k], half), detail=dict(atom=i, comp=k))
            rc = np.array(r.cell, dtype=float)
            la, lb = np.linalg.norm(cell, axis=1), np.linalg.norm(rc, axis=1)
            ang = lambda m: [np.degrees(np.arccos(np.dot(m[i], m[j]) / (np.linalg.norm(m[i]) * np.linalg.norm(m[j])))) for i, j in ((1, 2), (0, 2), (0, 1))]
            ctx.require('cell lengths and angles reproduced to the printed precision',
                        bool(np.allclose(la, lb, atol=1e-6)) and bool(np.allclose(ang(cell), ang(rc), atol=1e-4)), detail=dict(lengths=list(lb), angles=ang(rc)))
        else:
            for i in range(N):
                for k in range(3):
                    ctx.require('Cartesian coordinates reproduced to the printed precision (no cell)', close(r.positions[i][k], pos[i][k], half), detail=dict(atom=i))
        for k, ar in (('bond', 2), ('angle', 3)):
            rows = term_rows(r, k)
            ctx.require(f'{k}s reproduced between the same atoms', AND(len(rows) == len(ends.get(k, [])), *[EQ(rows[j][0][c], ends[k][j][c]) for j in range(min(len(rows), len(ends.get(k, [])))) for c in range(ar)]),
                        detail=dict(kind=k, n=len(rows)))
        four = ends.get('dihedral', []) + ends.get('improper', [])
        rows = term_rows(r, 'dihedral')
        ctx.require('torsions reproduced: dihedrals followed by impropers, between the same atoms',
                    AND(len(rows) == len(four), *[EQ(rows[j][0][c], four[j][c]) for j in range(min(len(rows), len(four))) for c in range(4)]), detail=dict(n=len(rows)))
    if p.get('extra'):
        ctx.require('extra per-atom columns reproduced', list(r.extra_atom_labels) == list(XN)
                    and [list(map(str, row)) for row in r.extra_atom_fields] == [[f"0.{i + 1}", f"n{i}"] for i in range(N)], detail=dict(labels=list(r.extra_atom_labels)))
    else:
        ctx.require('no extra per-atom columns appear', list(r.extra_atom_labels) == [], detail=dict(labels=list(r.extra_atom_labels)))
    for k in p['terms']:
        if k == 'improper':
            continue
        want = xl.get(k, [])
        got = list(getattr(r, f'extra_{k}_labels'))
        ctx.require(f'extra per-{k} columns reproduced', got == want and all(list(map(str, row)) == [f"{k}{j}x{c}" for c in range(len(want))] for j, row in enumerate(getattr(r, f'extra_{k}_fields')[:p['terms'][k]])),
                    detail=dict(kind=k, got=got, want=want))
    # second write of the re-read structure = first write of it re-read once more (idempotent text)
    f2 = io.StringIO()
    r.save_p1_cif(f2, use_fract_coords=bool(p['fract']))
    r2 = Atoms.load_p1_cif(io.StringIO(f2.getvalue()))
    f3 = io.StringIO()
    r2.save_p1_cif(f3, use_fract_coords=bool(p['fract']))
    with core.nosimplify():
        ctx.require('writing the re-read structure again gives the same document', same_doc(ctx, f2.getvalue(), f3.getvalue()))
    if not ctx.sym and cell is not None and p['fract']:
        import ase.io
        b = ase.io.read(io.StringIO(text1), format='cif')
        if len(b) != N:
            return      # ASE merges sites closer than its symprec: no comparison possible for this witness
        dfr = b.get_scaled_positions(wrap=False) - np.array(r.positions, dtype=float).dot(np.linalg.inv(np.array(r.cell, dtype=float)))
        ctx.require('an independent CIF reader (ASE) agrees on cell and positions (modulo the lattice)',
                    bool(np.allclose(np.array(b.cell), np.array(r.cell, dtype=float), atol=1e-5)) and bool(np.allclose(dfr - np.round(dfr), 0.0, atol=1.1e-3)),   # ASE snaps sites within its symprec (1e-3) of a cell face
                    detail=dict(d=dfr.tolist()))


def same_doc(ctx, t1, t2):
    if not ctx.sym:
        # cell lengths are written unrounded and drift in the 16th digit through arccos/cos: compare all other lines byte for byte
        # ... and a coordinate that is -1e-17 instead of 0 prints as -0.0000: numeric tokens are compared by value (both are IEEE
        # matters outside the real-arithmetic model; recorded in DESIGN.md)
        def toks(t):
            out = []
            for l in t.split('\n'):
                if l.startswith('_cell_length'):
                    continue
                for w in l.split():
                    try:
                        out.append(float(w) + 0.0)
                    except ValueError:
                        out.append(w)
            return out
        return toks(t1) == toks(t2)
    fm = ctx.ms.fmtmodel
    d1, d2 = DOCS[int(re.search(r"CIFDOC:(\d+)", t1).group(1))], DOCS[int(re.search(r"CIFDOC:(\d+)", t2).group(1))]
    b1, b2 = list(d1.blocks.values())[0], list(d2.blocks.values())[0]
    if b1.loops != b2.loops or list(b1.items) != list(b2.items):
        return False
    cs = []
    for k in b1.items:
        if k.startswith('_cell_length'):
            continue
        v1, v2 = b1.items[k], b2.items[k]
        l1 = v1 if isinstance(v1, list) else [v1]
        l2 = v2 if isinstance(v2, list) else [v2]
        if len(l1) != len(l2):
            return False
        for x, y in zip(l1, l2):
            if isinstance(x, str) and isinstance(y, str):
                m1, m2 = fm.PH.fullmatch(x), fm.PH.fullmatch(y)
                if m1 and m2:
                    cs.append(EQ(Sym(fm.FIELDS[int(m1.group(1))][0]), Sym(fm.FIELDS[int(m2.group(1))][0])))
                elif x != y:
                    return False
            elif isinstance(x, Sym) or isinstance(y, Sym):
                cs.append(EQ(x, y))
            elif str(x) != str(y):
                return False
    return AND(*cs)


def read_body(ctx, p):
    """files not written by mofun: standard-uncertainty parentheses, non-P1 space group, coordinates on/over the boundary"""
    Atoms = ctx.ms.Atoms
    x = ctx.real('x', -2, 2)
    # how the foreign file spells the number (plain decimal / exponent notation with E or e) is an explored environment choice; in
    # symbolic mode the number is a placeholder token whatever its spelling
    sp = ctx.choose(3, 'number-spelling')
    cifbody = """data_t
_symmetry_space_group_name_H-M          '%s'
_cell_length_a                          10.0(3)
_cell_length_b                          11.0
_cell_length_c                          12.000(12)
_cell_angle_alpha                       90.0
_cell_angle_beta                        90.0
_cell_angle_gamma                       90.0(5)
loop_
  _atom_site_label
  _atom_site_type_symbol
  _atom_site_fract_x
  _atom_site_fract_y
  _atom_site_fract_z
         C1        C         %s(12)    1.0000    -0.2500(3)
         O1        O         0.5000    0.0000    1.7500
"""
    if ctx.sym:
        fm = ctx.ms.fmtmodel
        xs = fm.exact_token(x)

        def doc(sg):
            b = CifBlock()
            b['_symmetry_space_group_name_H-M'] = sg
            for t, v in (('_cell_length_a', '10.0(3)'), ('_cell_length_b', '11.0'), ('_cell_length_c', '12.000(12)'), ('_cell_angle_alpha', '90.0'),
                         ('_cell_angle_beta', '90.0'), ('_cell_angle_gamma', '90.0(5)')):
                b[t] = v
            b.AddLoopItem((['_atom_site_label', '_atom_site_type_symbol', '_atom_site_fract_x', '_atom_site_fract_y', '_atom_site_fract_z'],
                           [['C1', 'O1'], ['C', 'O'], [xs + '(12)', '0.5000'], ['1.0000', '0.0000'], ['-0.2500(3)', '1.7500']]))
            c = CifFileObj()
            c['t'] = b
            return io.StringIO(c.WriteOut())
        good, bad, bad2 = doc('P 1'), doc('F m -3 m'), doc('P 1 21/c 1')
    else:
        xs = [repr(x), '%.17E' % x, '%.17e' % x][sp]
        good, bad, bad2 = io.StringIO(cifbody % ('P 1', xs)), io.StringIO(cifbody % ('F m -3 m', xs)), io.StringIO(cifbody % ('P 1 21/c 1', xs))
    r = Atoms.load_p1_cif(good)
    ctx.observe('n', len(r.positions))
    with core.nosimplify():
        fx = r.positions[0][0] / 10.0
        ctx.require('uncertainty parentheses are stripped; coordinates are wrapped into the cell',
                    AND(len(r.positions) == 2, core.is_integer_within(fx - x, 1e-9), fx >= -1e-12, fx < 1 + 1e-12,
                        close(r.positions[0][1], 0.0, 1e-9), close(r.positions[0][2], 9.0, 1e-9), close(r.positions[1][2], 9.0, 1e-9),
                        close(r.cell[0][0], 10.0, 1e-9), close(r.cell[2][2], 12.0, 1e-9)))
    try:
        Atoms.load_p1_cif(bad)
        rejected = False
    except Exception as ex:
        rejected = 'P1' in str(ex)
    ctx.require('a non-P1 space group is rejected', rejected)
    try:
        Atoms.load_p1_cif(bad2)
        rejected2 = False
    except Exception as ex:
        rejected2 = 'P1' in str(ex)
    ctx.require("a monoclinic symbol that merely starts with 'P 1' is rejected", rejected2)


def hint_inputs(ctx, p):
    """awkward concrete values tried on the real code (real PyCifRW text layer) when a solver witness does not reproduce: charges and
    coordinates that Python prints in exponent notation, many-digit values"""
    N = p.get('N', 2)
    h1 = {f"q{i}": [6.25e-05, -3.0517578125e-05, 1.5e-7, -2.5e-05][i % 4] for i in range(N)}
    h1.update({f"f{i}{c}": [0.123456789, 0.5000499, 0.99994][(i + k) % 3] for i in range(N) for k, c in enumerate('xyz')})
    h2 = {f"q{i}": [-0.35, 1.2345678901234567, 6.25e-05][i % 3] for i in range(N)}
    return [h1, h2, {'x': 0.25}, {'x': 3.0517578125e-05}]


SELFTESTS = [
    dict(name='obtuse-cell-angles-clipped', quick=True,
         mutate=[('mofun.atoms', "np.rad2deg(np.arccos(np.dot(c[1], c[2]) / (norm(c[1]) * norm(c[2])))),", "np.rad2deg(np.arccos(min(1.0, max(0.0, np.dot(c[1], c[2]) / (norm(c[1]) * norm(c[2])))))),")],
         instance=dict(family='cif', cell='t2', N=2, terms={}, fract=True)),
    dict(name='extra-bond-fields-shaped-by-angle-labels', quick=True,
         mutate=[('mofun.atoms', "shaped_fields(extra_bond_fields, (len(self.bond_types), len(extra_bond_labels)))", "shaped_fields(extra_bond_fields, (len(self.bond_types), len(extra_angle_labels)))")],
         instance=dict(family='cif', cell='t3', N=2, terms={'bond': 1, 'angle': 1}, fract=True, extra_angle_only=True)),
    dict(name='no-wrap-on-read',
         mutate=[('mofun.atoms', "                positions %= 1.0\n", "")],
         instance=dict(family='cif', cell='o1', N=2, terms={}, fract=True)),
]
