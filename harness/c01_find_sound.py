"""C01 - every reported match is a genuine rigid-motion image of the pattern (soundness of the search).
Same end-to-end runs as C02 (real find_pattern_in_structure under a symbolic translation), with the per-match oracle:
distinct existing atoms, elements in pattern order, returned positions = stored positions + lattice vectors, returned
proper rotation carries the pattern onto them within the tolerance, mirror images / clear misses never reported."""
from harness.find_runs import *
import harness.c02_find_complete as c02

PROPERTY = 'C01'
LEVEL = 'model_checking'
FUNCTIONS = c02.FUNCTIONS
BOUNDS = {'quick': c02.BOUNDS['quick'].split('; window lemma')[0] + '; plus hint triples on the chiral motif',
          'thorough': c02.BOUNDS['thorough']}
OUTSIDE = c02.OUTSIDE
ASSUMPTIONS = c02.ASSUMPTIONS
STUBS = c02.STUBS
OPTS = {'timeout_ms': 30000}


def instances(tier, seed):
    out = std_instances(tier, seed)
    # valid hint triples (points distinct, orientation point off the axis), including index 0
    hints = [(0, 1, 2), (1, 0, 3), (2, 3, 0), (3, 1, 2)] if tier == 'quick' else \
        [(a, b, c) for a in range(4) for b in range(4) for c in range(4) if len({a, b, c}) == 3][::2]
    for (a, b, c) in hints:
        out.append(dict(name=f"find:S1:axis0:hints{a}{b}{c}", family='find', struct='S1', axes=[(a + b) % 3], other=(0.1, 0.9, 0.4),
                        axisp1_idx=a, axisp2_idx=b, opoint_idx=c, cost=15))
    out += axis_instances(tier)
    return out


def body(ctx, p):
    if p['family'] == 'axis':
        return axis_body(ctx, p)
    R = run_find(ctx, p)
    ctx.observe('groups', [list(t) for t in sorted(R['idx'])] if R['motif'] not in ('ch4', 'trig-sym4', 'linear-sym3', 'ch2-sym3') else len(R['idx']))
    check_sound(ctx, R)


SELFTESTS = [
    dict(name='final-rotation-check-dropped', quick=True,
         mutate=[('mofun.mofun', "if np.allclose(atom_positions, chk_pattern.positions, atol=atol):", "if True:")],
         instance=dict(family='find', struct='S1', axes=[1], other=(0, 0, 0))),
    dict(name='fold-with-len-near-indices', quick=True,
         mutate=[('mofun.mofun', "match_index_tuples_in_uc = [tuple([near_indices[m] % len(structure) for m in match]) for match in good_match_index_tuples]",
                  "match_index_tuples_in_uc = [tuple([near_indices[m] % len(near_indices) for m in match]) for match in good_match_index_tuples]")],
         instance=dict(family='find', struct='S1', axes=[0], other=(0, 0, 0))),
    dict(name='positions-from-near-pos-index',
         mutate=[('mofun.mofun', "match_index_tuple_positions = np.array([[all_positions[near_indices[m]] for m in match] for match in good_match_index_tuples])",
                  "match_index_tuple_positions = np.array([[all_positions[m] for m in match] for match in good_match_index_tuples])")],
         instance=dict(family='find', struct='S2', axes=[0], other=(0, 0, 0))),
]
