"""C17 - bond detection equals the minimum-image covalent-radius rule.
The real detect_bonds (27 images x lazy Euclidean distances) runs on 2-3 atom structures in which atom B sits at a SYMBOLIC
separation d from atom A along a fixed direction and the whole structure is moved by a symbolic translation and wrapped; z3
decides on every path that the pair is reported (once, as i<j) iff d is below the cutoff of the element pair (two-sided with
1e-9 slack), for every translation, i.e. also when the pair is bonded only through a face, edge or corner image.  The cutoff
rule max_bond_length is checked exhaustively over the radius table."""
import itertools

from harness.find_common import CELLS, wrap_concrete
from harness.common import *
from symnp import core

PROPERTY = 'C17'
LEVEL = 'model_checking'
FUNCTIONS = ['mofun.detect_bonds.detect_bonds', 'mofun.detect_bonds.max_bond_length', 'mofun.mofun.uc_neighbor_offsets']
BOUNDS = {'quick': '12 element pairs (metal/non-metal combinations, both orders), 13 directions (axes, face and body diagonals), separation d symbolic '
                   'in (0.2, cutoff+0.6), one symbolic translation axis per instance with concrete shifts on the others placing the pair at faces, '
                   'edges and corners; pairs bonded through two images at once on narrow cells; corner crossings in both index orders; left-handed cells; a cell of integer dtype; histories detect -> replicate/assign cell -> detect on one object; 2 orthorhombic + 3 triclinic cells and no cell; a third atom as bystander; both atom orders',
          'thorough': 'as quick (incl. two-image pairs on narrow cells and detect / change cell / detect histories) with all 13 directions x 3 axes on 5 cells, two symbolic translation axes'}
OUTSIDE = ['two fully symbolic atom positions (nonlinear real arithmetic in 6 variables: z3 answers unknown)', 'cells narrower than twice the cutoff',
           'IEEE rounding at the cutoff (1e-9 slack)']
ASSUMPTIONS = ['perpendicular cell widths exceed twice the largest cutoff used (so the nearest image of B is the planted one)']
STUBS = []
OPTS = {'timeout_ms': 30000}

CELLS = dict(CELLS)
CELLS['narrow-tilted'] = [[3.6, 0, 0], [1.8, 3.6, 0], [0, 0, 12.]]      # perpendicular widths between 1x and 2x the C-C cutoff
CELLS['narrow-o'] = [[3.9, 0, 0], [0, 9.0, 0], [0, 0, 8.]]
CELLS['narrow-tilted2'] = [[4.2, 0, 0], [-2.0, 4.0, 0], [1.0, -1.5, 9.]]
CELLS['left-handed-t1'] = [CELLS['t1'][1], CELLS['t1'][0], CELLS['t1'][2]]      # the same lattice with a and b exchanged: negative determinant
CELLS['left-handed-o'] = [[10., 0, 0], [0, 11., 0], [0, 0, -12.]]
PAIRS = [('Cu', 'Cl'), ('Ni', 'S'), ('Zn', 'Br'), ('C', 'C'), ('C', 'H'), ('H', 'C'), ('Zn', 'O'), ('O', 'Zn'), ('Fe', 'Fe'), ('Zr', 'Cl'), ('Na', 'H'), ('Cu', 'N'), ('Li', 'Li'), ('S', 'Se'), ('K', 'O')]
DIRS = [(1, 0, 0), (0, 1, 0), (0, 0, 1), (1, 1, 0), (1, 0, 1), (0, 1, 1), (1, -1, 0), (1, 0, -1), (0, 1, -1), (1, 1, 1), (1, -1, 1), (1, 1, -1), (-1, 1, 1)]


_R = {'Br': 1.2, 'Ni': 1.24, 'C': 0.76, 'H': 0.31, 'Zn': 1.22, 'O': 0.66, 'Fe': 1.32, 'Zr': 1.75, 'Cl': 1.02, 'Na': 1.66, 'Cu': 1.32, 'N': 0.71, 'Li': 1.28, 'S': 1.05,
      'Se': 1.2, 'K': 2.03}


def _cut(pair):
    nm = ('H', 'C', 'N', 'O', 'Cl', 'S', 'Se', 'Br')
    return _R[pair[0]] + _R[pair[1]] + (0.45 if (pair[0] in nm or pair[1] in nm) else 0.0)


def instances(tier, seed):
    out = [dict(name='cutoff-rule:table-exhaustive', family='rule', cost=3)]
    cells = ['o1', 'o3', 't1', 't2', 't3']
    k = 0
    combos = list(itertools.product(range(len(DIRS)), range(3)))
    if tier == 'quick':
        combos = combos[::2][:20]
    for (di, ax) in combos:
        pair = PAIRS[k % len(PAIRS)]
        cell = cells[k % len(cells)]
        other = [(0.0, 0.0, 0.0), (0.97, 0.5, 0.02), (0.5, 0.99, 0.98), (0.01, 0.02, 0.5)][k % 4]
        if cell == 'o3' and _cut(pair) + 0.6 > 3.0:
            cell = 'o1'
        out.append(dict(name=f"bond:{pair[0]}-{pair[1]}:dir{di}:{cell}:axis{ax}", family='bond', pair=pair, dir=di, cell=cell, axes=[ax], other=other,
                        third=(k % 3 == 0), swap=(k % 5 == 1), cost=10))
        k += 1
    # cells whose perpendicular widths lie between one and two cutoffs (inside the property's domain): the nearest image is not always
    # the planted one, the oracle takes the minimum over the 27 images
    for j, (di, ax) in enumerate([(0, 0), (3, 1), (6, 0), (1, 1), (9, 2), (7, 1)][:6 if tier == 'quick' else 6]):
        out.append(dict(name=f"bond:C-C:dir{di}:narrow-tilted{j % 2}:axis{ax}", family='bond', pair=('C', 'C') if j % 3 else ('C', 'H'), dir=di,
                        cell='narrow-tilted' if j % 2 == 0 else 'narrow-tilted2', axes=[ax], other=(0.1, 0.6, 0.3), third=False, dmax=3.4, cost=20))
    # pairs that are within the cutoff through TWO images at once (cell edge between one and two cutoffs along the pair's direction):
    # still one bond
    out.append(dict(name="bond:C-C:dir0:narrow-tilted:two-images", family='bond', pair=('C', 'C'), dir=0, cell='narrow-tilted', axes=[0], other=(0.1, 0.6, 0.3), third=False,
                    dmax=3.4, cost=20))
    out.append(dict(name="bond:Zn-O:dir0:narrow-o:two-images", family='bond', pair=('Zn', 'O'), dir=0, cell='narrow-o', axes=[1], other=(0.95, 0.6, 0.3), third=False,
                    dmax=3.7, swap=True, cost=20))
    # an atom whose own periodic image lies within its own cutoff (K: 2 x 2.03 A in a 3.9 A cell): still only pairs i<j
    out.append(dict(name="bond:K-O:dir1:narrow-o:own-image-within-own-cutoff", family='bond', pair=('K', 'O'), dir=1, cell='narrow-o', axes=[0], other=(0.2, 0.6, 0.3), third=False,
                    dmax=3.7, cost=20))
    out.append(dict(name="bond:O-K:dir2:narrow-o:own-image-within-own-cutoff", family='bond', pair=('O', 'K'), dir=2, cell='narrow-o', axes=[2], other=(0.7, 0.1, 0.3), third=False,
                    dmax=3.7, swap=True, cost=20))
    # corner crossings: the pair is bonded only through the image that crosses ALL THREE faces at once, in both index orders (the lower-indexed
    # atom at the high a+b+c corner and the other one next to the origin needs the (-1,-1,-1) image of the first, and the other way round)
    for j, (cell, other) in enumerate([('o1', (0.85, 0.83, 0.8)), ('t1', (0.85, 0.84, 0.72))]):
        for ax in range(3):
            out.append(dict(name=f"bond:corner-crossing:{cell}:axis{ax}:{'swapped' if (ax + j) % 2 else 'stored-order'}", family='bond', pair=[('C', 'C'), ('Zn', 'O'), ('C', 'H')][ax], dir=9,
                            cell=cell, axes=[ax], other=other, third=False, swap=bool((ax + j) % 2), cost=15))
    # left-handed cells (negative determinant) describe a lattice like any other
    for j, (cell, di, ax) in enumerate([('left-handed-t1', 0, 0), ('left-handed-t1', 4, 2), ('left-handed-o', 2, 2), ('left-handed-o', 3, 1)]):
        out.append(dict(name=f"bond:{cell}:dir{di}:axis{ax}", family='bond', pair=[('C', 'C'), ('Zn', 'O')][j % 2], dir=di, cell=cell, axes=[ax], other=(0.96, 0.5, 0.97), third=False,
                        swap=bool(j % 2), cost=15))
    # a cell given in whole numbers (np.diag([10, 11, 12]) / nested lists of ints: the array has an integer dtype) is the same cell
    out.append(dict(name="bond:C-H:dir4:o1:cell-with-integer-dtype", family='bond', pair=('C', 'H'), dir=4, cell='o1', axes=[0], other=(0.0, 0.37, 0.93), third=False, int_cell=True, cost=20))
    out.append(dict(name="bond:Zn-O:dir9:o1:cell-with-integer-dtype", family='bond', pair=('Zn', 'O'), dir=9, cell='o1', axes=[2], other=(0.97, 0.5, 0.0), third=False, int_cell=True, swap=True, cost=20))
    # the cutoff itself is excluded ("below"): same-element metal pairs along x from the origin without a cell, where 2r, the separation and
    # the computed distance are all exact in binary floating point, so the EXACT rule (no slack) is decidable and replayable
    for pr in (('Fe', 'Fe'), ('Li', 'Li'), ('K', 'K')):
        out.append(dict(name=f"bond:{pr[0]}-{pr[1]}:exact-boundary:nocell", family='bond', pair=pr, dir=0, cell=None, axes=[], other=(0, 0, 0), third=False, exact=True, cost=2))
    # histories on one object lineage: detect, change the cell (replicate / assign), detect again == detection on a freshly built copy
    for j, (how, cell, di) in enumerate([('replicate', 'o1', 0), ('assign', 't1', 3), ('replicate', 'narrow-tilted', 0), ('assign-none', 'o1', 1)]):
        out.append(dict(name=f"history:{how}:{cell}:dir{di}", family='history', how=how, pair=('C', 'C') if j % 2 == 0 else ('Zn', 'O'), dir=di, cell=cell, axes=[di % 3],
                        other=(0.97, 0.02, 0.5), third=False, dmax=3.4 if 'narrow' in cell else None, cost=30))
    for j, pair in enumerate(PAIRS[:6 if tier == 'quick' else 12]):
        out.append(dict(name=f"bond:{pair[0]}-{pair[1]}:dir{j}:nocell", family='bond', pair=pair, dir=j, cell=None, axes=[], other=(0, 0, 0), third=(j % 2 == 0), cost=2))
    if tier == 'thorough':
        for j, (di, cell) in enumerate([(9, 't1'), (3, 'o3'), (12, 't3'), (6, 't2')]):
            out.append(dict(name=f"bond:two-axes:{j}", family='bond', pair=PAIRS[j + 3], dir=di, cell=cell, axes=[j % 3, (j + 1) % 3], other=(0.3, 0.3, 0.3), third=True, cost=300))
    return out


def body(ctx, p):
    DB = ctx.ms.detect_bonds
    Atoms = ctx.ms.Atoms
    if p['family'] == 'rule':
        R, NM = DB.COVALENT_RADII, DB.NON_METALS
        bad = []
        for a, b in itertools.product(R, R):
            want = R[a] + R[b] + (0.45 if (a in NM or b in NM) else 0.0)
            got = DB.max_bond_length(a, b)
            if abs(got - want) > 1e-12 or abs(got - DB.max_bond_length(b, a)) > 1e-12:
                bad.append((a, b, got, want))
        ctx.observe('pairs', len(R) ** 2)
        ctx.require('cutoff = r1 + r2 (+0.45 iff a non-metal is involved), symmetric, for every pair of the table', not bad, detail=dict(bad=bad[:4]))
        return
    e1, e2 = p['pair']
    cut = DB.COVALENT_RADII[e1] + DB.COVALENT_RADII[e2] + (0.45 if (e1 in DB.NON_METALS or e2 in DB.NON_METALS) else 0.0)
    u = np.array(DIRS[p['dir']], dtype=float)
    u = u / np.linalg.norm(u)
    d = ctx.real('d', 0.2, p.get('dmax') or cut + 0.6)
    cell = None if p['cell'] is None else np.array(CELLS[p['cell']], dtype=float)
    base = np.array([1.3, 1.7, 2.1]) if not p.get('exact') else np.array([0.0, 0.0, 0.0])
    third = base + (np.array([0.5, 0.5, 0.5]).dot(cell) if cell is not None else np.array([9.0, 7.0, 8.0]))
    use_third = bool(p.get('third'))
    if use_third and cell is not None:
        # the bystander (He, smallest radius) must stay clear of both atoms for every d in range: checked numerically here
        offs = [i * cell[0] + j * cell[1] + k * cell[2] for i in (-1, 0, 1) for j in (-1, 0, 1) for k in (-1, 0, 1)]
        cmax = max(DB.max_bond_length('He', e1), DB.max_bond_length('He', e2)) + 0.3
        for dd in np.linspace(0.2, cut + 0.6, 40):
            for q in (base, base + dd * u):
                if min(np.linalg.norm(third + o - q) for o in offs) < cmax:
                    use_third = False
    nby = int(p.get('bystanders', 0))
    by_pos = []
    if nby:
        # a large structure: hundreds of helium atoms on a 4 A grid (He-He cutoff 1.01 A), none within 6 A of the pair's region
        g = 0
        for i_ in range(int(cell[0][0] // 4)):
            for j_ in range(int(cell[1][1] // 4)):
                for k_ in range(int(cell[2][2] // 4)):
                    q = np.array([2.0 + 4.0 * i_, 2.0 + 4.0 * j_, 2.0 + 4.0 * k_])
                    if len(by_pos) < nby and np.linalg.norm(q - base) > 6.0 + cut and all(q[c] < cell[c][c] - 1.5 for c in range(3)):
                        by_pos.append(q)
        assert len(by_pos) == nby, len(by_pos)
    els = [e1, e2] + (['He'] if use_third else [])
    if cell is None:
        rows = [list(base), [float(base[c]) + d * float(u[c]) for c in range(3)]] + ([list(third)] if use_third else [])
    else:
        inv = np.linalg.inv(cell)
        shift = [ctx.real(f"t{k}", 0, 1) if k in p['axes'] else float(p['other'][k]) for k in range(3)]
        fA = wrap_concrete(base.reshape(1, 3), cell)[0]
        fT = wrap_concrete(third.reshape(1, 3), cell)[0]
        fu = u.dot(inv)
        fracs = [[float(fA[k]) + shift[k] for k in range(3)], [float(fA[k]) + shift[k] + d * float(fu[k]) for k in range(3)]]
        if use_third:
            fracs.append([float(fT[k]) + shift[k] for k in range(3)])
        for q in by_pos:
            fq = wrap_concrete(q.reshape(1, 3), cell)[0]
            fracs.append([float(fq[k]) + shift[k] for k in range(3)])
        rows = []
        for fr in fracs:
            g = [x % 1.0 if not isinstance(x, float) else x % 1.0 for x in fr]      # wrap into the cell (case split when symbolic)
            rows.append([sum(g[k] * float(cell[k][c]) for k in range(3)) for c in range(3)])
    els = els + ['He'] * len(by_pos)
    order = list(range(len(els)))
    if p.get('pair_last'):
        order = order[2:] + [0, 1]        # the pair is stored AFTER the bystanders (high indices)
    if p.get('swap'):
        order = order[::-1]
    st = Atoms(elements=[els[i] for i in order], positions=np.zeros((len(els), 3)), cell=cell if not p.get('int_cell') else np.array(cell).astype(int))
    st.positions = np.array([rows[i] for i in order], dtype=object if ctx.sym else float)
    bonds = DB.detect_bonds(st)
    got = [tuple(int(x) for x in b) for b in bonds]
    if p['family'] == 'history':
        how = p['how']
        if how == 'replicate':
            st2 = st.replicate((2, 1, 1))
        else:
            st2 = st
            st2.cell = None if how == 'assign-none' else np.array(cell) * np.array([[1.5], [1.0], [2.0]])
        got2 = sorted(tuple(int(x) for x in b) for b in DB.detect_bonds(st2))
        fresh = Atoms(elements=list(st2.elements), positions=np.zeros((len(st2), 3)), cell=None if st2.cell is None else np.array(st2.cell, dtype=float))
        fresh.positions = np.array([[x for x in r] for r in st2.positions], dtype=object if ctx.sym else float)
        got3 = sorted(tuple(int(x) for x in b) for b in DB.detect_bonds(fresh))
        ctx.observe('bonds_after', [list(b) for b in got2])
        ctx.require('detection after a change of cell on the same object equals detection on a freshly built identical structure', got2 == got3,
                    detail=dict(same_object=got2, fresh=got3, how=how))
        got1b = sorted(tuple(int(x) for x in b) for b in DB.detect_bonds(st)) if how == 'replicate' else None
        if got1b is not None:
            ctx.require('detection on the original is repeatable after it was replicated', got1b == sorted(got), detail=dict(first=got, again=got1b))
    ctx.observe('bonds', [list(b) for b in got])
    ia, ib = order.index(0), order.index(1)
    pair = (min(ia, ib), max(ia, ib))
    eps = 1e-9
    with core.nosimplify():
        if cell is None:
            d2s = [d * d]
        else:
            # squared distance of B to A over the 27 periodic images (the property's definition), as polynomials in d
            d2s = []
            for i_ in (-1, 0, 1):
                for j_ in (-1, 0, 1):
                    for k_ in (-1, 0, 1):
                        off = i_ * cell[0] + j_ * cell[1] + k_ * cell[2]
                        d2s.append(core.SUM([(d * float(u[c]) + float(off[c])) * (d * float(u[c]) + float(off[c])) for c in range(3)]))
        lo2, hi2 = (cut - eps) ** 2, (cut + eps) ** 2
        if p.get('exact'):
            ctx.require('exact rule at the cutoff: reported iff the distance is BELOW the cutoff (a distance equal to it is not a bond)',
                        IFF(d < Fraction(float(DB.COVALENT_RADII[e1])) + Fraction(float(DB.COVALENT_RADII[e2])), pair in got), detail=dict(cut=cut))
        ctx.require('pair whose smallest image distance is clearly below the cutoff is reported', IMPLIES(OR(*[x <= lo2 for x in d2s]), pair in got), detail=dict(cut=cut))
        ctx.require('pair whose smallest image distance is clearly above the cutoff is not reported', IMPLIES(AND(*[x >= hi2 for x in d2s]), pair not in got), detail=dict(cut=cut))
    ctx.require('each pair once, as i<j', len(set(got)) == len(got) and all(i < j for i, j in got))
    ctx.require('the bystander atom forms no bond', all(set(b) == set(pair) for b in got), detail=dict(got=got))


SELFTESTS = [
    dict(name='half-shell-of-images', quick=True,
         mutate=[('mofun.detect_bonds', "        uc_offsets = uc_neighbor_offsets(structure.cell)\n", "        uc_offsets = uc_neighbor_offsets(structure.cell)\n        uc_offsets = uc_offsets[len(uc_offsets) // 2:]\n")],
         instance=dict(family='bond', pair=('C', 'C'), dir=0, cell='o1', axes=[0], other=(0, 0.5, 0.5), third=False, swap=False)),
    dict(name='allowance-only-from-first-element', quick=True,
         mutate=[('mofun.detect_bonds', "if el1 in NON_METALS or el2 in NON_METALS:", "if el1 in NON_METALS or el1 in NON_METALS:")],
         instance=dict(family='bond', pair=('Zn', 'O'), dir=3, cell=None, axes=[], other=(0, 0, 0), third=False)),
    dict(name='less-or-equal-cutoff-with-wrong-constant',
         mutate=[('mofun.detect_bonds', "+ 0.45", "+ 0.40")],
         instance=dict(family='bond', pair=('C', 'H'), dir=1, cell='t1', axes=[1], other=(0.5, 0, 0.5), third=False)),
]
