"""C16 - CML molecules load faithfully.
The real Atoms.load_cml / Atoms.load(..., 'cml') run against a data-model stub of xml.etree.ElementTree (parse -> getroot ->
findall('.//atom' | './/bond') -> .attrib); coordinates are symbolic reals carried as placeholder text, the atoms each bond names
are symbolic indices into the id list (solver-enumerated), id schemes come from a stated list.  In concrete mode (per-path
cross-validation and replay) the same document is rendered as real CML text and parsed by the real ElementTree from an open
file and from a path, which also validates the stub."""
import io
import pathlib
import os
import tempfile
import types

from harness.common import *
from symnp import core

PROPERTY = 'C16'
LEVEL = 'model_checking'
FUNCTIONS = ['mofun.atoms.Atoms.load_cml', "mofun.atoms.Atoms.load (filetype 'cml')", 'mofun.atoms.Atoms.__init__ (elements branch)']
BOUNDS = {'quick': '1-3 atoms, 0-2 bonds naming any atoms (symbolic), 7 id schemes (sequential, non-sequential, reversed, shuffled, arbitrary '
                   'strings, ids that are prefixes of one another, numeric), coordinates any real in (-1e4, 1e4)',
          'thorough': 'up to 4 atoms and 3 bonds'}
OUTSIDE = ['the XML text layer itself (expat) in symbolic mode: it is exercised only on the concrete witnesses of every path', 'CML flavours other than Avogadro']
ASSUMPTIONS = ['ElementTree data model: findall returns elements in document order with their attributes as strings', 'atom ids unique within a document']
STUBS = ['xml.etree.ElementTree.parse -> data-model stub (symbolic mode only; concrete mode uses the real parser on rendered text)']

ID_SCHEMES = {
    'seq': ['a1', 'a2', 'a3', 'a4'], 'nonseq': ['a7', 'a2', 'a40', 'a11'], 'rev': ['a4', 'a3', 'a2', 'a1'], 'shuffled': ['a3', 'a1', 'a4', 'a2'],
    'strings': ['C_ring.1', 'x', 'H-2', 'O:3'], 'prefix': ['a1', 'a11', 'a111', 'a'], 'numeric': ['10', '9', '100', '1'],
}
ELS = ['C', 'O', 'H', 'Zr']


class _El:
    def __init__(self, attrib):
        self.attrib = attrib


class _Root:
    def __init__(self, doc):
        self.doc = doc

    def findall(self, path):
        if path == './/atom':
            return [_El(a) for a in self.doc['atoms']]
        if path == './/bond':
            return [_El(b) for b in self.doc['bonds']]
        raise core.Unsupported(f"findall({path!r})")


class _Tree:
    def __init__(self, doc):
        self.doc = doc

    def getroot(self):
        return _Root(self.doc)


class DocHandle(io.TextIOBase):
    """what the harness passes as 'the file' in symbolic mode"""

    def __init__(self, doc):
        self.doc = doc


def _parse(f):
    if isinstance(f, DocHandle):
        return _Tree(f.doc)
    raise core.Unsupported("ET.parse of something that is not the harness document")


ETSTUB = types.SimpleNamespace(parse=_parse)
XML = types.SimpleNamespace(etree=types.SimpleNamespace(ElementTree=ETSTUB))


def modset_kwargs(p):
    return dict(fmt=True, key='cml', stubs={'xml.etree.ElementTree': XML}, real_stubs={})


def instances(tier, seed):
    out = []
    for k, scheme in enumerate(ID_SCHEMES):
        n = [3, 2, 3, 3, 3, 3, 2][k]
        nb = [2, 1, 1, 2, 1, 2, 1][k]
        out.append(dict(name=f"cml:{scheme}:n{n}:b{nb}", family='cml', scheme=scheme, n=n, nb=nb, cost=5 * n ** (2 * nb)))
    out.append(dict(name="cml:seq:n1:b0", family='cml', scheme='seq', n=1, nb=0, cost=1))
    for k, els in enumerate([['H', 'O', 'C', 'O'], ['N', 'C', 'H'], ['Zr', 'Hf', 'O', 'Zr'], ['O', 'Zr', 'C', 'H']]):
        out.append(dict(name=f"cml:elements{k}:{'-'.join(els)}", family='cml', scheme='seq', n=len(els), nb=1, els=els, cost=5))
    out.append(dict(name="cml:seq:n2:b1:with-2d-depiction-coordinates", family='cml', scheme='seq', n=2, nb=1, with2d=True, cost=10))
    out.append(dict(name="cml:nonseq:n1:b0:with-2d-depiction-coordinates", family='cml', scheme='nonseq', n=1, nb=0, with2d=True, cost=5))
    out.append(dict(name="cml:seq:n2:b1:document-in-iso-8859-1", family='cml', scheme='seq', n=2, nb=1, encoding='ISO-8859-1', cost=5))
    out.append(dict(name="cml:rev:n2:b0:document-in-utf-16", family='cml', scheme='rev', n=2, nb=0, encoding='UTF-16', cost=5))
    out.append(dict(name="cml:strings:n3:b0", family='cml', scheme='strings', n=3, nb=0, cost=1))
    out.append(dict(name="cml:nonseq:n2:b0", family='cml', scheme='nonseq', n=2, nb=0, cost=1))
    if tier == 'thorough':
        out.append(dict(name="cml:shuffled:n4:b2", family='cml', scheme='shuffled', n=4, nb=2, cost=300))
        out.append(dict(name="cml:prefix:n4:b3", family='cml', scheme='prefix', n=4, nb=3, cost=900))
    return out


def render(doc_atoms, doc_bonds, encoding='UTF-8', title=None):
    s = ['<?xml version="1.0" encoding="%s"?>' % encoding, '<molecule xmlns="http://www.xml-cml.org/schema"%s>' % (' title="%s"' % title if title else ''), ' <atomArray>']
    for a in doc_atoms:
        two_d = ''.join(' %s="%s"' % (k, a[k]) for k in ('x2', 'y2', 'hydrogenCount') if k in a)
        s.append('  <atom id="%s" elementType="%s" x3="%s" y3="%s" z3="%s"%s/>' % (a['id'], a['elementType'], a['x3'], a['y3'], a['z3'], two_d))
    s.append(' </atomArray>')
    if doc_bonds:
        s.append(' <bondArray>')
        for b in doc_bonds:
            s.append('  <bond atomRefs2="%s" order="%s"/>' % (b['atomRefs2'], b['order']))
        s.append(' </bondArray>')
    s.append('</molecule>')
    return '\n'.join(s).replace(' xmlns="http://www.xml-cml.org/schema"', '')


def body(ctx, p):
    Atoms = ctx.ms.Atoms
    n, nb = p['n'], p['nb']
    ids = ID_SCHEMES[p['scheme']][:n]
    els = list(p['els']) if p.get('els') else [ELS[(i * 2 + len(p['scheme'])) % 4] for i in range(n)]
    xyz = [[ctx.real(f"x{i}{c}", -10000, 10000) for c in 'xyz'] for i in range(n)]
    ends = [[ctx.int(f"b{j}_{c}", 0, n - 1) for c in range(2)] for j in range(nb)]
    orders = [1, 2, 1.5][:nb]
    if ctx.sym:
        fm = ctx.ms.fmtmodel
        atoms = [dict(id=ids[i], elementType=els[i], x3=fm.exact_token(xyz[i][0]), y3=fm.exact_token(xyz[i][1]), z3=fm.exact_token(xyz[i][2])) for i in range(n)]
    else:
        atoms = [dict(id=ids[i], elementType=els[i], x3=repr(xyz[i][0]), y3=repr(xyz[i][1]), z3=repr(xyz[i][2])) for i in range(n)]
    if p.get('with2d'):
        # files written by molecule editors carry the 2-D depiction next to the 3-D coordinates; the 3-D ones are the stated coordinates
        for i, d_ in enumerate(atoms):
            d_.update(x2=str(3.25 + i), y2=str(-1.5 - 2 * i), hydrogenCount='0')
    bonds = [dict(atomRefs2=f"{ids[int(e[0])]} {ids[int(e[1])]}", order=str(orders[j])) for j, e in enumerate(ends)]
    if ctx.sym:
        a = Atoms.load_cml(DocHandle(dict(atoms=atoms, bonds=bonds)))
        a2 = Atoms.load(DocHandle(dict(atoms=atoms, bonds=bonds)), filetype='cml')
    else:
        enc = p.get('encoding', 'UTF-8')
        text = render(atoms, bonds, encoding=enc, title=('m\u00e9thanol d\u00e9riv\u00e9' if enc != 'UTF-8' else None))
        # (a document declaring a two-byte encoding cannot be parsed from decoded text by expat: it is only loaded by path)
        text_mode_ok = enc.upper() != 'UTF-16'
        a = Atoms.load_cml(io.StringIO(text)) if text_mode_ok else None
        d = tempfile.mkdtemp()
        try:
            pth = os.path.join(d, 'm.cml')
            # the path held another document before (and that one was loaded): what counts is the file's content at load time
            decoy = render([dict(id='q1', elementType='Xe', x3='1.0', y3='2.0', z3='3.0')] + atoms[::-1], [])
            open(pth, 'w').write(decoy)
            a0 = Atoms.load(pth)
            ctx.require('decoy document loads', len(a0) == n + 1)
            with open(pth, 'wb') as fb:
                fb.write(text.encode(enc))      # the document's own encoding (named in its prolog / byte order mark)
            a2 = Atoms.load(pth)
            if text_mode_ok:
                with open(pth, encoding=enc) as fh:
                    a3 = Atoms.load(fh, filetype='cml')
            else:
                a3 = a = Atoms.load(pathlib.Path(pth))
            a4 = Atoms.load_cml(pth)
            ctx.require('load_cml(path) and load(path) agree', len(a2) == len(a4) and bool(np.all(a2.positions == a4.positions)))
            ctx.require('loading from a path and from an open file give the same result',
                        len(a2) == len(a3) and list(a2.elements) == list(a3.elements) and bool(np.all(a2.positions == a3.positions))
                        and np.array_equal(np.array(a2.bonds), np.array(a3.bonds)))
        finally:
            import shutil
            shutil.rmtree(d)
    for tag, obj in (('load_cml', a), ('load', a2)):
        ctx.require(f'{tag}: one atom per atom entry', len(obj.positions) == n, detail=dict(n=len(obj.positions)))
        if len(obj.positions) != n:
            return
        ctx.observe(f'{tag}:n_bonds', len(obj.bonds))
        with core.nosimplify():
            ctx.require(f'{tag}: atoms in document order with the stated element and coordinates',
                        AND(list(obj.elements) == els, *[EQ(obj.positions[i][c], xyz[i][c]) for i in range(n) for c in range(3)]))
            ctx.require(f'{tag}: one bond per bond entry (zero entries -> zero bonds)', len(obj.bonds) == nb, detail=dict(n=len(obj.bonds)))
            if len(obj.bonds) == nb:
                for j in range(nb):
                    ctx.require(f'{tag}: bond joins the atoms named by its references',
                                AND(EQ(obj.bonds[j][0], ends[j][0]), EQ(obj.bonds[j][1], ends[j][1])), detail=dict(bond=j))
        ctx.require(f'{tag}: consistent object', lengths_consistent(obj))


SELFTESTS = [
    dict(name='zip-unpack-of-empty-bond-list', quick=True,
         mutate=[('mofun.atoms', "        bonds_by_ids = [ids for ids, _ in bond_tuples]\n", "        bonds_by_ids, bond_orders = zip(*bond_tuples)\n")],
         instance=dict(family='cml', scheme='seq', n=1, nb=0)),
    dict(name='atoms-sorted-by-id', quick=True,
         mutate=[('mofun.atoms', "        atom_dicts = [a.attrib for a in root.findall('.//atom')]\n",
                  "        atom_dicts = sorted([a.attrib for a in root.findall('.//atom')], key=lambda a: a['id'])\n")],
         instance=dict(family='cml', scheme='rev', n=3, nb=1)),
    dict(name='bond-index-from-id-number',
         mutate=[('mofun.atoms', "bonds = [(id_to_idx[b1], id_to_idx[b2]) for (b1,b2) in bonds_by_ids]",
                  "bonds = [(int(b1[1:]) - 1, int(b2[1:]) - 1) for (b1,b2) in bonds_by_ids]")],
         instance=dict(family='cml', scheme='nonseq', n=2, nb=1)),
]
