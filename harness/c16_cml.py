"""C16 - CML molecules load faithfully.
The real Atoms.load_cml / Atoms.load(..., 'cml') run on a document whose TEXT is parsed by the real xml.etree.ElementTree (expat) also in
symbolic mode: coordinates are symbolic reals carried through the XML text as placeholder tokens (only float() on a token is modelled),
the atoms each bond names are symbolic indices into the id list (solver-enumerated), id schemes and document layouts (one molecule,
two molecules in a <cml> wrapper, nested sub-molecule, split arrays) come from stated lists, the spelling of the numbers is an explored
environment choice.  In concrete mode (per-path cross-validation and replay) the document is rendered in full and parsed from an open
file and from a path."""
import io
import pathlib
import os
import tempfile
import types

from harness.common import *
from symnp import core

PROPERTY = 'C16'
LEVEL = 'model_checking'
FUNCTIONS = ['mofun.atoms.Atoms.load_cml', "mofun.atoms.Atoms.load (filetype 'cml')", 'mofun.atoms.Atoms.__init__ (elements branch)']
BOUNDS = {'quick': '1-3 atoms, 0-2 bonds naming any atoms (symbolic), 7 id schemes (sequential, non-sequential, reversed, shuffled, arbitrary '
                   'strings, ids that are prefixes of one another, numeric), 4 document layouts (one molecule, two molecules in a <cml> wrapper, nested sub-molecule, split arrays), '
                   'coordinates any real in (-1e4, 1e4), 4 number spellings on the witnesses',
          'thorough': 'up to 4 atoms and 3 bonds'}
OUTSIDE = ['the decimal spelling of a number in symbolic mode (a placeholder token stands for any spelling float() accepts; four spellings are rendered on the concrete witnesses: repr, %.17E, explicit plus sign, %.17e)', 'XML namespaces (documents are rendered without xmlns, as the repository fixtures are)']
ASSUMPTIONS = ['ElementTree data model: findall returns elements in document order with their attributes as strings', 'atom ids unique within a document']
STUBS = ['xml.etree.ElementTree.parse(handle) -> the REAL ElementTree.fromstring on the document text in which every symbolic number is a placeholder token (symbolic mode); concrete mode: the real parser on the fully rendered text, numbers in the chosen spelling']

ID_SCHEMES = {
    'seq': ['a1', 'a2', 'a3', 'a4'], 'nonseq': ['a7', 'a2', 'a40', 'a11'], 'rev': ['a4', 'a3', 'a2', 'a1'], 'shuffled': ['a3', 'a1', 'a4', 'a2'],
    'strings': ['C_ring.1', 'x', 'H-2', 'O:3'], 'prefix': ['a1', 'a11', 'a111', 'a'], 'numeric': ['10', '9', '100', '1'],
}
ELS = ['C', 'O', 'H', 'Zr']


class DocHandle(io.TextIOBase):
    """what the harness passes as 'the file' in symbolic mode: the CML text, with every symbolic number as a placeholder token"""

    def __init__(self, text):
        self.text = text


def _parse(f, parser=None):
    # the REAL ElementTree / expat parse the document text (placeholder tokens are ordinary private-use characters inside attribute
    # values), so find / findall / iter / attrib are the library's own code in symbolic mode too
    if isinstance(f, DocHandle):
        return _ET.ElementTree(_ET.fromstring(f.text))
    raise core.Unsupported("ET.parse of something that is not the harness document")


import xml.etree.ElementTree as _ET
ETSTUB = types.SimpleNamespace(**{k: getattr(_ET, k) for k in dir(_ET) if not k.startswith('__')})
ETSTUB.parse = _parse
XML = types.SimpleNamespace(etree=types.SimpleNamespace(ElementTree=ETSTUB))


def modset_kwargs(p):
    return dict(fmt=True, key='cml', stubs={'xml.etree.ElementTree': XML}, real_stubs={})


def instances(tier, seed):
    out = []
    for k, scheme in enumerate(ID_SCHEMES):
        n = [3, 2, 3, 3, 3, 3, 2][k]
        nb = [2, 1, 1, 2, 1, 2, 1][k]
        out.append(dict(name=f"cml:{scheme}:n{n}:b{nb}", family='cml', scheme=scheme, n=n, nb=nb, cost=5 * n ** (2 * nb)))
    out.append(dict(name="cml:seq:n1:b0", family='cml', scheme='seq', n=1, nb=0, cost=1))
    for k, els in enumerate([['H', 'O', 'C', 'O'], ['N', 'C', 'H'], ['Zr', 'Hf', 'O', 'Zr'], ['O', 'Zr', 'C', 'H']]):
        out.append(dict(name=f"cml:elements{k}:{'-'.join(els)}", family='cml', scheme='seq', n=len(els), nb=1, els=els, cost=5))
    out.append(dict(name="cml:seq:n2:b1:with-2d-depiction-coordinates", family='cml', scheme='seq', n=2, nb=1, with2d=True, cost=10))
    out.append(dict(name="cml:nonseq:n1:b0:with-2d-depiction-coordinates", family='cml', scheme='nonseq', n=1, nb=0, with2d=True, cost=5))
    out.append(dict(name="cml:seq:n2:b1:document-in-iso-8859-1", family='cml', scheme='seq', n=2, nb=1, encoding='ISO-8859-1', cost=5))
    out.append(dict(name="cml:rev:n2:b0:document-in-utf-16", family='cml', scheme='rev', n=2, nb=0, encoding='UTF-16', cost=5))
    out.append(dict(name="cml:strings:n3:b0", family='cml', scheme='strings', n=3, nb=0, cost=1))
    # documents whose atom / bond entries are spread over several arrays, molecules or nesting levels: still one atom per atom entry
    out.append(dict(name="cml:seq:n3:b2:two-molecules-in-a-cml-wrapper", family='cml', scheme='seq', n=3, nb=2, layout='two-molecules', cost=60))
    out.append(dict(name="cml:nonseq:n3:b1:nested-sub-molecule", family='cml', scheme='nonseq', n=3, nb=1, layout='nested', cost=20))
    out.append(dict(name="cml:rev:n2:b2:arrays-split", family='cml', scheme='rev', n=2, nb=2, layout='arrays-split', cost=20))
    out.append(dict(name="cml:strings:n2:b0:two-molecules-in-a-cml-wrapper", family='cml', scheme='strings', n=2, nb=0, layout='two-molecules', cost=2))
    out.append(dict(name="cml:nonseq:n2:b0", family='cml', scheme='nonseq', n=2, nb=0, cost=1))
    if tier == 'thorough':
        out.append(dict(name="cml:shuffled:n4:b2", family='cml', scheme='shuffled', n=4, nb=2, cost=300))
        out.append(dict(name="cml:prefix:n4:b3", family='cml', scheme='prefix', n=4, nb=3, cost=900))
    return out


def _atom_line(a):
    two_d = ''.join(' %s="%s"' % (k, a[k]) for k in ('x2', 'y2', 'hydrogenCount') if k in a)
    return '  <atom id="%s" elementType="%s" x3="%s" y3="%s" z3="%s"%s/>' % (a['id'], a['elementType'], a['x3'], a['y3'], a['z3'], two_d)


def _arrays(doc_atoms, doc_bonds, ind=' '):
    s = []
    if doc_atoms:
        s += [ind + '<atomArray>'] + [ind + _atom_line(a) for a in doc_atoms] + [ind + '</atomArray>']
    if doc_bonds:
        s += [ind + '<bondArray>'] + [ind + '  <bond atomRefs2="%s" order="%s"/>' % (b['atomRefs2'], b['order']) for b in doc_bonds] + [ind + '</bondArray>']
    return s


def render(doc_atoms, doc_bonds, encoding='UTF-8', title=None, layout='flat'):
    """CML text of the document.  layouts: 'flat' (one molecule, one atomArray, one bondArray - what Avogadro writes);
    'two-molecules' (a <cml> wrapper holding two <molecule> fragments, the atoms / bonds split between them in document order);
    'nested' (a molecule with a sub-molecule: the later atoms and bonds sit one level deeper);
    'arrays-split' (one molecule, two atomArray and two bondArray elements)"""
    head = '<?xml version="1.0" encoding="%s"?>' % encoding
    tattr = ' title="%s"' % title if title else ''
    ka, kb = (len(doc_atoms) + 1) // 2, (len(doc_bonds) + 1) // 2
    if layout == 'flat':
        s = [head, '<molecule%s>' % tattr] + _arrays(doc_atoms, doc_bonds) + ['</molecule>']
    elif layout == 'two-molecules':
        s = [head, '<cml%s>' % tattr, ' <molecule id="m1">'] + _arrays(doc_atoms[:ka], doc_bonds[:kb], '  ') + [' </molecule>', ' <molecule id="m2">'] \
            + _arrays(doc_atoms[ka:], doc_bonds[kb:], '  ') + [' </molecule>', '</cml>']
    elif layout == 'nested':
        s = [head, '<molecule%s>' % tattr] + _arrays(doc_atoms[:ka], doc_bonds[:kb]) + [' <molecule id="sub">'] + _arrays(doc_atoms[ka:], doc_bonds[kb:], '  ') \
            + [' </molecule>', '</molecule>']
    elif layout == 'arrays-split':
        s = [head, '<molecule%s>' % tattr] + _arrays(doc_atoms[:ka], []) + _arrays(doc_atoms[ka:], []) + _arrays([], doc_bonds[:kb]) + _arrays([], doc_bonds[kb:]) + ['</molecule>']
    else:
        raise ValueError(layout)
    return '\n'.join(s)


SPELLINGS = ['repr', 'exponent-upper-case-E', 'explicit-plus-sign', 'exponent-lower-case-e']


def spell(x, k):
    """decimal text of a double; every spelling is a valid xsd:double and parses back to exactly x with float()"""
    x = float(x)
    if k == 1:
        return '%.17E' % x
    if k == 2:
        return ('+' if x >= 0 else '') + repr(x)
    if k == 3:
        return '%.17e' % x
    return repr(x)


def body(ctx, p):
    Atoms = ctx.ms.Atoms
    n, nb = p['n'], p['nb']
    ids = ID_SCHEMES[p['scheme']][:n]
    els = list(p['els']) if p.get('els') else [ELS[(i * 2 + len(p['scheme'])) % 4] for i in range(n)]
    xyz = [[ctx.real(f"x{i}{c}", -10000, 10000) for c in 'xyz'] for i in range(n)]
    ends = [[ctx.int(f"b{j}_{c}", 0, n - 1) for c in range(2)] for j in range(nb)]
    orders = [1, 2, 1.5][:nb]
    layout = p.get('layout', 'flat')
    if ctx.sym:
        fm = ctx.ms.fmtmodel
        atoms = [dict(id=ids[i], elementType=els[i], x3=fm.exact_token(xyz[i][0]), y3=fm.exact_token(xyz[i][1]), z3=fm.exact_token(xyz[i][2])) for i in range(n)]
    else:
        atoms = [dict(id=ids[i], elementType=els[i]) for i in range(n)]
    if p.get('with2d'):
        # files written by molecule editors carry the 2-D depiction next to the 3-D coordinates; the 3-D ones are the stated coordinates
        for i, d_ in enumerate(atoms):
            d_.update(x2=str(3.25 + i), y2=str(-1.5 - 2 * i), hydrogenCount='0')
    bonds = [dict(atomRefs2=f"{ids[int(e[0])]} {ids[int(e[1])]}", order=str(orders[j])) for j, e in enumerate(ends)]
    # how the document spells its numbers is an environment choice (explored like every other one): in symbolic mode a number is a
    # placeholder token whatever the spelling, on the concrete witnesses the real text is rendered in the chosen spelling
    sp = ctx.choose(len(SPELLINGS), 'number-spelling')
    if not ctx.sym:
        for i in range(n):
            atoms[i].update(x3=spell(xyz[i][0], sp), y3=spell(xyz[i][1], sp), z3=spell(xyz[i][2], sp))
    if ctx.sym:
        a = Atoms.load_cml(DocHandle(render(atoms, bonds, layout=layout)))
        a2 = Atoms.load(DocHandle(render(atoms, bonds, layout=layout)), filetype='cml')
    else:
        enc = p.get('encoding', 'UTF-8')
        text = render(atoms, bonds, encoding=enc, title=('m\u00e9thanol d\u00e9riv\u00e9' if enc != 'UTF-8' else None), layout=layout)
        # (a document declaring a two-byte encoding cannot be parsed from decoded text by expat: it is only loaded by path)
        text_mode_ok = enc.upper() != 'UTF-16'
        a = Atoms.load_cml(io.StringIO(text)) if text_mode_ok else None
        d = tempfile.mkdtemp()
        try:
            pth = os.path.join(d, 'm.cml')
            # the path held another document before (and that one was loaded): what counts is the file's content at load time
            decoy = render([dict(id='q1', elementType='Xe', x3='1.0', y3='2.0', z3='3.0')] + atoms[::-1], [])
            open(pth, 'w').write(decoy)
            a0 = Atoms.load(pth)
            ctx.require('decoy document loads', len(a0) == n + 1)
            with open(pth, 'wb') as fb:
                fb.write(text.encode(enc))      # the document's own encoding (named in its prolog / byte order mark)
            a2 = Atoms.load(pth)
            if text_mode_ok:
                with open(pth, encoding=enc) as fh:
                    a3 = Atoms.load(fh, filetype='cml')
            else:
                a3 = a = Atoms.load(pathlib.Path(pth))
            a4 = Atoms.load_cml(pth)
            ctx.require('load_cml(path) and load(path) agree', len(a2) == len(a4) and bool(np.all(a2.positions == a4.positions)))
            ctx.require('loading from a path and from an open file give the same result',
                        len(a2) == len(a3) and list(a2.elements) == list(a3.elements) and bool(np.all(a2.positions == a3.positions))
                        and np.array_equal(np.array(a2.bonds), np.array(a3.bonds)))
        finally:
            import shutil
            shutil.rmtree(d)
    for tag, obj in (('load_cml', a), ('load', a2)):
        ctx.require(f'{tag}: one atom per atom entry', len(obj.positions) == n, detail=dict(n=len(obj.positions)))
        if len(obj.positions) != n:
            return
        ctx.observe(f'{tag}:n_bonds', len(obj.bonds))
        with core.nosimplify():
            ctx.require(f'{tag}: atoms in document order with the stated element and coordinates',
                        AND(list(obj.elements) == els, *[EQ(obj.positions[i][c], xyz[i][c]) for i in range(n) for c in range(3)]))
            ctx.require(f'{tag}: one bond per bond entry (zero entries -> zero bonds)', len(obj.bonds) == nb, detail=dict(n=len(obj.bonds)))
            if len(obj.bonds) == nb:
                for j in range(nb):
                    ctx.require(f'{tag}: bond joins the atoms named by its references',
                                AND(EQ(obj.bonds[j][0], ends[j][0]), EQ(obj.bonds[j][1], ends[j][1])), detail=dict(bond=j))
        ctx.require(f'{tag}: consistent object', lengths_consistent(obj))


def hint_inputs(ctx, p):
    """awkward coordinate values (small, large, negative, many digits): tried on the real code when a solver witness does not reproduce"""
    vals = [1.25e-4, -3.0517578125e-05, 12345.678901234567, -0.1, 2.5e-7, 1e3, -7.000000000000001, 0.30000000000000004, 5e-324 * 0 + 6.02e-23]
    return [{f"x{i}{c}": vals[(3 * i + k + r) % len(vals)] for i in range(p['n']) for k, c in enumerate('xyz')} for r in range(2)]


SELFTESTS = [
    dict(name='zip-unpack-of-empty-bond-list', quick=True,
         mutate=[('mofun.atoms', "        bonds_by_ids = [ids for ids, _ in bond_tuples]\n", "        bonds_by_ids, bond_orders = zip(*bond_tuples)\n")],
         instance=dict(family='cml', scheme='seq', n=1, nb=0)),
    dict(name='atoms-sorted-by-id', quick=True,
         mutate=[('mofun.atoms', "        atom_dicts = [a.attrib for a in root.findall('.//atom')]\n",
                  "        atom_dicts = sorted([a.attrib for a in root.findall('.//atom')], key=lambda a: a['id'])\n")],
         instance=dict(family='cml', scheme='rev', n=3, nb=1)),
    dict(name='bond-index-from-id-number',
         mutate=[('mofun.atoms', "bonds = [(id_to_idx[b1], id_to_idx[b2]) for (b1,b2) in bonds_by_ids]",
                  "bonds = [(int(b1[1:]) - 1, int(b2[1:]) - 1) for (b1,b2) in bonds_by_ids]")],
         instance=dict(family='cml', scheme='nonseq', n=2, nb=1)),
]
