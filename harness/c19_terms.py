"""C19 - term enumeration is complete and term typing depends only on UFF types.
(A) helpers.typekey on tuples of SYMBOLIC integers (the function only uses == and <=): canonical, reversal-invariant, injective up
    to reversal - proved by z3 on every path, arities 2-4.
(B) calc_angles / calc_dihedrals (real networkx) on a catalogue of bond graphs (chains, branched, rings of 4-6, ring assemblies,
    metal-node stars, disconnected) with solver-chosen direction flips of every bond and list rotations; counting oracle.
(C) assign_bond/angle/dihedral_types, delete_if_all_in_set, retype_atoms_from_uff_types, assign_pair_coeffs with the per-atom UFF
    type a SYMBOLIC index into an 8-name alphabet (solver-enumerated typings): same type id <=> same reversal-canonical key
    (+ torsion multiplicity), coefficient text carries the parameters of the sequence, None-torsions dropped, exclusion set
    honoured, identical coefficients under atom renaming and term-list reversal."""
import itertools

from harness.common import *
from symnp import core

PROPERTY = 'C19'
LEVEL = 'model_checking'
FUNCTIONS = ['mofun.helpers.typekey', 'mofun.rough_uff.calc_angles', 'mofun.rough_uff.calc_dihedrals', 'mofun.rough_uff.assign_bond_types',
             'mofun.rough_uff.assign_angle_types', 'mofun.rough_uff.assign_dihedral_types', 'mofun.rough_uff.delete_if_all_in_set',
             'mofun.rough_uff.retype_atoms_from_uff_types', 'mofun.rough_uff.assign_pair_coeffs']
BOUNDS = {'quick': 'typekey: arities 2-4 over unbounded symbolic ints; graphs: 14 shapes of <=8 atoms x all 2^B direction flips (B<=6) or 16 seeded '
                   'flip/rotation variants; typing: 4-atom chain and 4-atom star with all 8^4 typings over an 8-name alphabet covering every torsion branch',
          'thorough': 'typing on a 5-atom branched graph (8^5 typings sampled by the solver up to the path budget) and 5-ring'}
OUTSIDE = ['graphs with isolated atoms (outside the property); for three-membered rings only chains of four distinct atoms are required, the degenerate closed chain is tolerated', 'UFF type names outside the 8-name alphabet (C18 covers the '
           'parameter functions over the whole table)', 'graphs beyond the catalogue']
ASSUMPTIONS = ['atom ids are the integers 0..n-1', 'bond lists hold each edge once']
STUBS = []
OPTS = {'timeout_ms': 20000}

ALPHABET = ['C_3', 'C_R', 'C_2', 'C_1', 'O_3', 'N_R', 'Zr8f4', 'H_']
GRAPHS = {
    'chain4': [(0, 1), (1, 2), (2, 3)], 'chain6': [(0, 1), (1, 2), (2, 3), (3, 4), (4, 5)], 'star4': [(0, 1), (0, 2), (0, 3)],
    'star5': [(0, 1), (0, 2), (0, 3), (0, 4)], 'branched6': [(0, 1), (1, 2), (1, 3), (3, 4), (3, 5)], 'ring4': [(0, 1), (1, 2), (2, 3), (3, 0)],
    'ring5': [(0, 1), (1, 2), (2, 3), (3, 4), (4, 0)], 'ring6': [(0, 1), (1, 2), (2, 3), (3, 4), (4, 5), (5, 0)],
    'fused-rings': [(0, 1), (1, 2), (2, 3), (3, 0), (2, 4), (4, 5), (5, 3)], 'spiro': [(0, 1), (1, 2), (2, 3), (3, 0), (0, 4), (4, 5), (5, 6), (6, 0)],
    'metal-node': [(0, 1), (0, 2), (0, 3), (0, 4), (1, 5), (2, 6)], 'two-molecules': [(0, 1), (1, 2), (3, 4), (4, 5), (5, 6)],
    'ethane-like': [(0, 1), (0, 2), (0, 3), (0, 4), (4, 5), (4, 6), (4, 7)], 'pair': [(0, 1)],
    # three-membered rings: the chain c-a-b-c around a ring bond is degenerate (first atom = last atom); the property speaks of chains
    # i-j-k-l, so only chains of four DISTINCT atoms are required (each once) and a degenerate tuple is tolerated, never required
    'ring3-substituted': [(0, 1), (1, 2), (2, 0), (0, 3), (1, 4), (4, 5)], 'ring3-fused-ring4': [(0, 1), (1, 2), (2, 0), (1, 3), (3, 4), (4, 2)],
    'metal-triangle': [(0, 1), (1, 2), (2, 0), (0, 3), (0, 4), (1, 5), (2, 6)],
}


def instances(tier, seed):
    out = [dict(name=f'typekey:arity{k}', family='typekey', k=k, cost=10 * k) for k in (2, 3, 4)]
    for g, e in GRAPHS.items():
        out.append(dict(name=f'enumerate:{g}', family='enumerate', graph=g, cost=2 ** min(len(e), 6)))
    out.append(dict(name='typing:chain4', family='typing', graph='chain4', cost=400))
    out.append(dict(name='typing:star4', family='typing', graph='star4', cost=300))
    out.append(dict(name='typing:branched5:small-alphabet', family='typing', graph='branched5', alphabet=['C_3', 'C_R', 'O_3', 'C_1'], cost=200))
    out.append(dict(name='typing:chain5:small-alphabet', family='typing', graph='chain5', alphabet=['C_3', 'C_1', 'C_R', 'Zr8f4'], cost=200))
    out.append(dict(name='typing:ethane-like:two-names', family='typing', graph='ethane-like', alphabet=['C_3', 'H_'], fixed={0: 0, 4: 0}, cost=200))
    # exclusion sets of a realistic size (a whole metal node / linker: dozens of atoms scattered over a large structure); concrete shape, one
    # symbolic end point, every atom occurring in several terms
    out.append(dict(name='exclusion-set:large:N400:excl30', family='exclude-large', N=400, nexcl=30, cost=30))
    out.append(dict(name='exclusion-set:large:N2500:excl60', family='exclude-large', N=2500, nexcl=60, cost=30))
    out.append(dict(name='retype', family='retype', cost=20))
    out.append(dict(name='typekey:crosshair', family='crosshair', cost=10))
    if tier == 'thorough':
        out.append(dict(name='typing:ring5', family='typing', graph='ring5', cost=3000))
        out.append(dict(name='typing:branched5', family='typing', graph='branched5', cost=3000))
    return out


# bond lists in which some atom index below the largest bonded one has no bond (a free ion / guest atom stored first, a fragment's bond list)
GRAPHS['gap-first-atom-unbonded'] = [(1, 2), (2, 3), (3, 4)]
GRAPHS['gap-in-the-middle'] = [(0, 1), (1, 3), (3, 4), (3, 5)]
GRAPHS['branched5'] = [(0, 1), (1, 2), (1, 3), (3, 4)]
GRAPHS['chain5'] = [(0, 1), (1, 2), (2, 3), (3, 4)]


def canon(seq):
    seq = tuple(seq)
    return min(seq, seq[::-1])


CROSSHAIR_KERNEL = """
from typing import Tuple
from mofun.helpers import typekey


def _typekey2(t: Tuple[int, int]) -> Tuple[int, ...]:
    '''
    post: __return__ == typekey(tuple(reversed(t)))
    post: __return__ == t or __return__ == tuple(reversed(t))
    '''
    return typekey(t)


def _typekey3(t: Tuple[int, int, int]) -> Tuple[int, ...]:
    '''
    post: __return__ == typekey(tuple(reversed(t)))
    post: __return__ == t or __return__ == tuple(reversed(t))
    '''
    return typekey(t)


def _typekey4(t: Tuple[int, int, int, int]) -> Tuple[int, ...]:
    '''
    post: __return__ == typekey(tuple(reversed(t)))
    post: __return__ == t or __return__ == tuple(reversed(t))
    '''
    return typekey(t)


def _typekey4_injective(a: Tuple[int, int, int, int], b: Tuple[int, int, int, int]) -> bool:
    '''
    post: __return__ == (a == b or a == tuple(reversed(b)))
    '''
    return typekey(a) == typekey(b)
"""


def crosshair_body(ctx, p):
    """second engine: CrossHair 0.0.110 on the pure-Python kernel typekey (contracts above); every condition must be
    'Confirmed over all paths' - a counterexample or an unconfirmed condition fails the obligation"""
    import os
    import shutil
    import subprocess
    import tempfile
    from symnp import loader
    d = tempfile.mkdtemp()
    try:
        open(os.path.join(d, 'typekey_contracts.py'), 'w').write(CROSSHAIR_KERNEL)
        env = dict(os.environ, PYTHONPATH=loader.REPO)
        exe = os.path.join(os.path.dirname(os.path.dirname(os.path.abspath(__file__))), '.venv', 'bin', 'crosshair')
        if not os.path.exists(exe):
            exe = '/verif/.venv/bin/crosshair'
        r = subprocess.run([exe, 'check', '--report_all', '--per_condition_timeout', '30', 'typekey_contracts.py'], cwd=d, env=env,
                           capture_output=True, text=True, timeout=400)
        out = r.stdout + r.stderr
        confirmed = out.count('Confirmed over all paths')
        ctx.observe('confirmed', confirmed)
        ctx.require('CrossHair confirms all 7 typekey contract conditions over all paths', confirmed == 7 and 'error' not in out.lower(),
                    detail=dict(output=out[-600:]))
    finally:
        shutil.rmtree(d)


def exclude_large_body(ctx, p, RU):
    """delete_if_all_in_set (the exclusion-set step of assign_*_types) on term arrays in which atoms repeat, against an exclusion set of dozens of
    atoms scattered over the index range: a row goes iff ALL its atoms are in the set"""
    N, ne = p['N'], p['nexcl']
    step = N // ne
    excl = set(range(3, N, step)[:ne])
    ex = sorted(excl)
    x = ctx.int('x', ex[4] - 1, ex[4] + 2)        # a symbolic end point next to / on an excluded atom
    for ar in (2, 3, 4):
        rows = []
        for j in range(6):        # rows wholly inside the set, sharing atoms with one another
            rows.append([ex[(j + c) % 8] for c in range(ar)])
        for j in range(6):        # rows with one atom outside
            r = [ex[(2 * j + c) % 10] for c in range(ar)]
            r[j % ar] = ex[j] + 1
            rows.append(r)
        rows.append([ex[1]] * (ar - 1) + [x])          # inside iff x is excluded
        rows.append([x] + [ex[2] + 1] * (ar - 1))       # never wholly inside
        arr = ctx.np.array(rows, dtype=object if ctx.sym else int)
        out = RU.delete_if_all_in_set(arr, set(excl))
        got = [tuple(int(v) for v in r) for r in out]
        xin = OR(*[EQ(x, e) for e in ex])
        with core.nosimplify():
            want_rows = []
            for r in rows:
                conc_in = all((v in excl) for v in r if not isinstance(v, core.Sym) and v is not x)
                has_x = any(v is x for v in r)
                want_rows.append((r, (conc_in and not has_x, conc_in and has_x)))
            xv = int(x)
            want = [tuple(int(v) for v in r) for r, (always, ifx) in want_rows if not (always or (ifx and xv in excl))]
            ctx.require(f'arity {ar}: a term is removed exactly when all its atoms are in the exclusion set (atoms repeat across terms)', got == want,
                        detail=dict(arity=ar, got=len(got), want=len(want)))
        ctx.observe(f'kept{ar}', len(got))


def body(ctx, p):
    fam = p['family']
    if fam == 'crosshair':
        return crosshair_body(ctx, p)
    H = ctx.ms.helpers
    if fam == 'typekey':
        k = p['k']
        a = [ctx.int(f"a{i}") for i in range(k)]
        b = [ctx.int(f"b{i}") for i in range(k)]
        ka, kb, kra = H.typekey(a), H.typekey(b), H.typekey(list(reversed(a)))
        with core.nosimplify():
            eqt = lambda x, y: AND(*[EQ(u, v) for u, v in zip(x, y)])
            ctx.require('typekey returns the tuple or its reversal', OR(eqt(ka, a), eqt(ka, a[::-1])))
            ctx.require('typekey is reversal-invariant', eqt(ka, kra))
            ctx.require('equal keys exactly when the tuples agree up to reversal', IFF(eqt(ka, kb), OR(eqt(a, b), eqt(a, b[::-1]))))
        ctx.observe('len', len(ka))
        return
    RU = ctx.ms.rough_uff
    if fam == 'exclude-large':
        return exclude_large_body(ctx, p, RU)
    if fam == 'enumerate':
        edges = GRAPHS[p['graph']]
        B = len(edges)
        if B <= 6:
            flips = [ctx.choose(2, f'flip{j}') for j in range(B)]
            rot = ctx.choose(min(B, 3), 'rot')
        else:
            v = ctx.choose(16, 'variant')
            rng = np.random.default_rng(v)
            flips = [int(x) for x in rng.integers(0, 2, B)]
            rot = int(rng.integers(0, B))
        bl = [(b, a) if f else (a, b) for (a, b), f in zip(edges, flips)]
        bl = bl[rot:] + bl[:rot]
        angles = [tuple(int(x) for x in t) for t in RU.calc_angles(bl)]
        dihs = [tuple(int(x) for x in t) for t in RU.calc_dihedrals(bl)]
        adj = {}
        for a, b in edges:
            adj.setdefault(a, set()).add(b)
            adj.setdefault(b, set()).add(a)
        want_angles = sorted(canon((x, c, y)) for c in adj for x, y in itertools.combinations(sorted(adj[c]), 2))
        want_dih = sorted(canon((i, j, k, l)) for j, k in edges for i in adj[j] - {k} for l in adj[k] - {j} if i != l)
        degenerate = [t for t in dihs if len(set(t)) < 4]
        ctx.require('a reported dihedral with a repeated atom is at most the closed chain c-a-b-c of a three-membered ring',
                    all(len(set(t)) == 3 and t[0] == t[3] and t[1] in adj[t[0]] and t[2] in adj[t[1]] and t[0] in adj[t[2]] for t in degenerate),
                    detail=dict(degenerate=degenerate[:4]))
        dihs = [t for t in dihs if len(set(t)) == 4]
        ctx.observe('n_angles', len(angles))
        ctx.observe('n_dihedrals', len(dihs))
        ctx.require('every pair of distinct bonds sharing an atom is an angle exactly once', sorted(canon(t) for t in angles) == want_angles,
                    detail=dict(got=len(angles), want=len(want_angles)))
        ctx.require('every bonded chain i-j-k-l around every bond is a dihedral exactly once', sorted(canon(t) for t in dihs) == want_dih,
                    detail=dict(got=len(dihs), want=len(want_dih)))
        return
    if fam == 'retype':
        Atoms = ctx.ms.Atoms
        n = 4
        ti = [ctx.int(f"ty{i}", 0, len(ALPHABET) - 1) for i in range(n)]
        names = [ALPHABET[int(t)] for t in ti]
        a = Atoms(elements=['C'] * n, positions=np.zeros((n, 3)))
        RU.retype_atoms_from_uff_types(a, names)
        masses = ctx.ms.get('mofun.atomic_masses').ATOMIC_MASSES
        ok = all(a.atom_type_labels[a.atom_types[i]] == names[i] for i in range(n))
        els = [s[0:2].replace('_', '') for s in a.atom_type_labels]
        ok = ok and list(a.atom_type_elements) == els and all(abs(m - masses[e]) < 1e-12 for m, e in zip(a.atom_type_masses, els))
        ok = ok and len(set(a.atom_type_labels)) == len(a.atom_type_labels) == len(set(names))
        ctx.require('retyped tables agree with the per-atom UFF types (labels, elements, masses; one row per type in use)', ok)
        RU.assign_pair_coeffs(a)
        ok = len(a.pair_coeffs) == len(a.atom_type_labels) and all(c.endswith('# ' + l) and abs(float(c.split()[0]) - RU.pair_coeffs(l)[0]) < 1e-6
                                                                   for c, l in zip(a.pair_coeffs, a.atom_type_labels))
        ctx.require('pair coefficients follow the type labels', ok)
        ctx.observe('n_types', len(a.atom_type_labels))
        return
    # ---- typing
    Atoms = ctx.ms.Atoms
    edges = GRAPHS[p['graph']]
    n = max(max(e) for e in edges) + 1
    alpha = p.get('alphabet') or ALPHABET
    ti = [ctx.int(f"ty{i}", 0, len(alpha) - 1) if i not in (p.get('fixed') or {}) else p['fixed'][i] for i in range(n)]
    names = [alpha[int(t)] for t in ti]
    # exclusion sets: none / three atoms (bonds and angles inside go, no dihedral can) / four atoms spanning one torsion but, where the
    # graph has several torsions about that bond, not all of them (the multiplicity is a property of the bond graph, not of what is left)
    four = {'chain4': {0, 1, 2, 3}, 'star4': {0, 1, 2, 3}, 'branched5': {0, 1, 3, 4}, 'chain5': {0, 1, 2, 3}, 'ring5': {0, 1, 2, 3},
            'ethane-like': {1, 0, 4, 5}}.get(p['graph'])
    excl_bit = ctx.choose(3 if four else 2, 'exclude')

    def run(perm, reverse_lists, exclude, flip_alternate=False):
        inv = {old: new for new, old in enumerate(perm)}
        bl = [(inv[a], inv[b]) for a, b in edges]
        nm = [names[perm[i]] for i in range(n)]
        if reverse_lists:
            bl = [(b, a) for a, b in reversed(bl)]
        a = Atoms(elements=['C'] * n, positions=np.zeros((n, 3)), bonds=bl, bond_types=[0] * len(bl))
        a.angles = RU.calc_angles(bl)
        a.dihedrals = RU.calc_dihedrals(bl)
        if reverse_lists:
            a.angles = a.angles[::-1]
            a.dihedrals = a.dihedrals[::-1]
        if flip_alternate:
            # terms listed in MIXED directions (every second angle / dihedral written from its other end), as in hand-built lists or files
            # written by other tools: same physical terms, so same coefficients
            a.angles = np.array([t[::-1] if j % 2 else t for j, t in enumerate(a.angles)]).reshape(-1, 3)
            a.dihedrals = np.array([t[::-1] if j % 2 else t for j, t in enumerate(a.dihedrals)]).reshape(-1, 4)
            a.bonds = np.array([t[::-1] if j % 2 else t for j, t in enumerate(a.bonds)]).reshape(-1, 2)
        ex = None if exclude is None else set(inv[x] for x in exclude)
        res = {}
        try:
            RU.assign_bond_types(a, nm, exclude=ex)
            RU.assign_angle_types(a, nm, exclude=ex)
            res['bonds'] = {canon(tuple(perm[int(x)] for x in t)): a.bond_type_coeffs[a.bond_types[j]] for j, t in enumerate(a.bonds)}
            res['angles'] = {canon(tuple(perm[int(x)] for x in t)): a.angle_type_coeffs[a.angle_types[j]] for j, t in enumerate(a.angles)}
            res['bond_ids'] = {canon(tuple(perm[int(x)] for x in t)): int(a.bond_types[j]) for j, t in enumerate(a.bonds)}
            res['angle_ids'] = {canon(tuple(perm[int(x)] for x in t)): int(a.angle_types[j]) for j, t in enumerate(a.angles)}
        except KeyError as ex_:
            res['ba_error'] = str(ex_)[:60]
        try:
            RU.assign_dihedral_types(a, nm, exclude=ex)
            res['dih_ids_valid'] = len(a.dihedral_types) == len(a.dihedrals) and all(0 <= int(t) < len(a.dihedral_type_coeffs) for t in a.dihedral_types)
            if not res['dih_ids_valid']:
                return res
            res['dihedrals'] = {canon(tuple(perm[int(x)] for x in t)): a.dihedral_type_coeffs[a.dihedral_types[j]] for j, t in enumerate(a.dihedrals)}
            res['dihedral_ids'] = {canon(tuple(perm[int(x)] for x in t)): int(a.dihedral_types[j]) for j, t in enumerate(a.dihedrals)}
            res['n_dih_types'] = len(a.dihedral_type_coeffs)
        except Exception as ex_:
            if "we don't know how to handle this dihedral" not in str(ex_):
                raise
            res['d_error'] = 'unsupported torsion typing'
        return res

    exclude = [None, {0, 1, 2}, four][excl_bit]
    r0 = run(list(range(n)), False, exclude)
    r1 = run(list(range(n))[::-1], True, exclude)
    r2 = run([(i + 1) % n for i in range(n)], False, exclude)
    r3 = run(list(range(n)), False, exclude, flip_alternate=True)
    ctx.observe('keys', sorted(r0.keys()))
    ctx.require('every dihedral type id indexes a coefficient row', all(r.get('dih_ids_valid', True) for r in (r0, r1, r2, r3)))
    if not all(r.get('dih_ids_valid', True) for r in (r0, r1, r2, r3)):
        return
    ctx.require('identical outcome (coefficients per physical term, or the same error) under atom renaming and term-list reversal',
                all({k: v for k, v in r.items() if not k.endswith('_ids') and k != 'n_dih_types'} == {k: v for k, v in r0.items() if not k.endswith('_ids') and k != 'n_dih_types'}
                    for r in (r1, r2)), detail=dict(r0=str(r0)[:300], r1=str(r1)[:300]))
    strip = lambda r: {k: v for k, v in r.items() if not k.endswith('_ids') and k != 'n_dih_types'}
    ctx.require('identical outcome when individual terms are listed from their other end (mixed directions in one list)', strip(r3) == strip(r0),
                detail=dict(r0=str(r0)[:300], r3=str(r3)[:300]))
    if 'dihedral_ids' in r0 and 'dihedral_ids' in r3:
        same0 = {(a_, b_): r0['dihedral_ids'][a_] == r0['dihedral_ids'][b_] for a_ in r0['dihedral_ids'] for b_ in r0['dihedral_ids']}
        same3 = {(a_, b_): r3['dihedral_ids'][a_] == r3['dihedral_ids'][b_] for a_ in r3['dihedral_ids'] for b_ in r3['dihedral_ids']}
        ctx.require('the partition of dihedrals into types does not depend on the direction in which each is listed', same0 == same3)
    adj = {}
    for a_, b_ in edges:
        adj.setdefault(a_, set()).add(b_)
        adj.setdefault(b_, set()).add(a_)
    inside = (lambda t: exclude is not None and set(t) <= exclude)
    if 'bonds' in r0:
        want_b = [canon(e) for e in edges if not (inside(e) and len(exclude or ()) >= 2)]
        want_a = [canon((x, c, y)) for c in adj for x, y in itertools.combinations(sorted(adj[c]), 2)]
        want_a = [t for t in want_a if not (inside(t) and len(exclude or ()) >= 3)]
        ctx.require('every bond and angle outside the exclusion set is typed, those wholly inside are removed',
                    sorted(r0['bonds']) == sorted(want_b) and sorted(r0['angles']) == sorted(want_a), detail=dict(bonds=sorted(r0['bonds'])))
        for kind, ids, coeffs, fn in (('bond', r0['bond_ids'], r0['bonds'], RU.bond_params), ('angle', r0['angle_ids'], r0['angles'], RU.angle_params)):
            terms = list(ids)
            ok = True
            for t1, t2 in itertools.combinations_with_replacement(terms, 2):
                k1, k2 = canon(tuple(names[i] for i in t1)), canon(tuple(names[i] for i in t2))
                ok = ok and ((ids[t1] == ids[t2]) == (k1 == k2))
            ctx.require(f'two {kind}s share a type exactly when their UFF type sequences agree up to reversal', ok)
            ok = True
            for t in terms:
                seq = tuple(names[i] for i in t)
                # (angle parameters: a fresh bond-order list per call, so that the expected value cannot depend on earlier calls)
                prm = fn(*seq) if kind == 'bond' else fn(*seq, bond_orders=[None, None])
                nums = [float(x) for x in coeffs[t].split('#')[0].split() if x.replace('.', '').replace('-', '').replace('e', '').isdigit()]
                want = [float('%10.6f' % x) for x in prm if isinstance(x, float)] if kind == 'bond' else [float('%10.6f' % prm[1])]
                ok = ok and all(any(abs(w - g) < 1e-6 for g in nums) for w in want)
                ok = ok and coeffs[t].split('#')[1].split() in (list(seq), list(seq[::-1]))
                if kind == 'angle':
                    ok = ok and coeffs[t].startswith(prm[0])
            ctx.require(f'each {kind} type carries the parameters and the names of its sequence', ok)
    if 'dihedrals' in r0:
        chains = [canon((i, j, k, l)) for j, k in edges for i in adj[j] - {k} for l in adj[k] - {j}]
        mult = {}
        for c in chains:
            mult[canon((c[1], c[2]))] = mult.get(canon((c[1], c[2])), 0) + 1
        keep = []
        for c in chains:
            if inside(c) and len(exclude or ()) >= 4:
                continue
            seq = tuple(names[i] for i in c)
            if RU.dihedral_params(*seq, num_dihedrals_about_bond=mult[canon((c[1], c[2]))]) is not None:
                keep.append(c)
        ctx.require('dihedrals without a defined torsion are dropped, all others are typed', sorted(r0['dihedrals']) == sorted(keep),
                    detail=dict(got=sorted(r0['dihedrals']), want=sorted(keep)))
        ids = r0['dihedral_ids']
        ok = True
        for t1, t2 in itertools.combinations_with_replacement(list(ids), 2):
            if t1 in keep and t2 in keep:
                k1 = (canon(tuple(names[i] for i in t1)), mult[canon((t1[1], t1[2]))])
                k2 = (canon(tuple(names[i] for i in t2)), mult[canon((t2[1], t2[2]))])
                ok = ok and ((ids[t1] == ids[t2]) == (k1 == k2))
        ctx.require('two dihedrals share a type exactly when sequence (up to reversal) and torsion multiplicity agree', ok)
        ok = True
        for t in ids:
            if t in keep:
                seq = tuple(names[i] for i in t)
                prm = RU.dihedral_params(*seq, num_dihedrals_about_bond=mult[canon((t[1], t[2]))])
                txt = r0['dihedrals'][t]
                ok = ok and txt.startswith('%s %10.6f %d %d' % prm) and txt.endswith('M=%d' % mult[canon((t[1], t[2]))])
        ctx.require('each dihedral type carries the torsion parameters of its sequence and multiplicity', ok)
        ctx.require('one coefficient row per dihedral type in use', r0['n_dih_types'] == len(set(ids.values())))


SELFTESTS = [
    dict(name='typekey-compares-only-the-ends', quick=True,
         mutate=[('mofun.helpers', "    if tuple(rev) <= tuple(tup):\n        return tuple(rev)", "    if tup[-1] < tup[0]:\n        return tuple(rev)")],
         instance=dict(family='typekey', k=4)),
    dict(name='dihedrals-deduplicated-by-atom-set', quick=True,
         mutate=[('mofun.rough_uff', "    return np.array(dihedrals)\n", "    seen = {}\n    for d in dihedrals:\n        seen.setdefault(tuple(sorted(d)), d)\n    return np.array(list(seen.values()))\n")],
         instance=dict(family='enumerate', graph='ring4')),
    dict(name='multiplicity-ignored-in-dihedral-type',
         mutate=[('mofun.rough_uff', "num_dihedrals_per_bond[typekey([atup[1], atup[2]])]) for atup in atoms.dihedrals]", "1) for atup in atoms.dihedrals]")],
         instance=dict(family='typing', graph='branched5', alphabet=['C_3', 'C_R', 'O_3', 'C_1'])),
]
