"""shared instance catalogue and runner for the end-to-end search harnesses (C01, C02, C03)"""
import numpy as np

from harness.find_common import *
from symnp import core

A = 0.05   # default tolerance

STRUCTS = {
    # name: (cell, clusters, pattern motif)
    'S1': ('o1', [dict(motif='chiral4', pose='p1', at=(2, 3, 4)), dict(motif='chiral4', pose='p2', at=(6.5, 7, 8), kind='mirror')], 'chiral4'),
    'S2': ('t1', [dict(motif='chiral4', pose='p3', at=(1.0, 2.0, 1.5)), dict(motif='chiral4', pose='p4', at=(5.5, 6.0, 5.0)),
                  dict(motif='chiral4', pose='p5', at=(8.0, 2.5, 6.5), kind='nearmiss', atom=3, by=(0.0, 0.16, 0.0))], 'chiral4'),
    'S3': ('o2', [dict(motif='planar3', pose='flipx', at=(1.0, 2.0, 1.0)), dict(motif='planar3', pose='rz90', at=(4.5, 8.0, 5.0)),
                  dict(kind='raw', el=['C', 'N', 'O'], pos=[(6.5, 1.0, 7.0), (2.0, 11.0, 3.0), (5.9, 5.0, 2.2)])], 'planar3'),
    'S4': ('o1', [dict(motif='collinear3', pose='id', at=(1.0, 1.5, 2.0)), dict(motif='collinear3', pose='flipz', at=(7.0, 6.0, 6.5)),
                  dict(motif='collinear3', pose='p1', at=(4.0, 9.0, 10.0))], 'collinear3'),
    'S5': ('t2', [dict(motif='pair', pose='id', at=(1.0, 1.0, 1.0)), dict(motif='pair', pose='flipy', at=(4.0, 3.0, 2.0)),
                  dict(motif='pair', pose='p2', at=(6.0, 6.5, 5.5)), dict(kind='raw', el=['H', 'C'], pos=[(2.0, 5.0, 6.5), (8.0, 1.0, 3.0)])], 'pair'),
    'S6': ('o3', [dict(kind='raw', el=['H', 'C', 'H', 'O', 'H'], pos=[(0.5, 0.5, 0.5), (2.0, 2.0, 2.0), (6.0, 3.0, 1.0), (4.0, 4.0, 4.0), (3.0, 6.2, 5.5)])], 'single'),
    'S7': ('o1', [dict(motif='ch4', pose='p1', at=(3.0, 4.0, 5.0))], 'ch4'),
    'S8': ('t3', [dict(motif='linear-sym3', pose='p2', at=(2.0, 2.0, 2.0)), dict(motif='linear-sym3', pose='id', at=(6.0, 5.0, 5.0))], 'linear-sym3'),
    'S9': ('tr', [dict(motif='chiral5', pose='p4', at=(0.5, 0.8, 0.2)), dict(motif='chiral5', pose='p1', at=(3.0, 4.0, -2.0), kind='mirror')], 'chiral5'),
    'S10': ('t4', [dict(motif='trig-sym4', pose='p5', at=(2.0, 3.0, 3.0), kind='stretch', factor=0.01),
                   dict(kind='raw', el=['F', 'B', 'F'], pos=[(6.0, 7.0, 7.0), (7.5, 2.0, 1.0), (1.0, 8.0, 5.0)])], 'trig-sym4'),
    'S13': ('o1', [dict(motif='collinear3', pose='id', at=(2.0, 2.0, 2.0), kind='stretch', factor=0.008),
                   dict(motif='collinear3', pose='rz90', at=(6.0, 3.0, 8.0), kind='stretch', factor=0.008),
                   dict(motif='collinear3', pose='ry90', at=(3.0, 8.0, 5.0), kind='stretch', factor=-0.008)], 'collinear3'),
    'S11': ('o1', [dict(motif='chiral4', pose='near-anti', at=(2, 3, 4)), dict(motif='chiral4', pose='near-par', at=(6, 7, 8)),
                   dict(motif='chiral4', pose='flipy', at=(2.5, 8.0, 9.0))], 'chiral4'),
    'S12': ('o2', [dict(motif='ch2-sym3', pose='p3', at=(2.0, 3.0, 3.0)), dict(motif='ch2-sym3', pose='ry90', at=(5.0, 9.0, 6.0))], 'ch2-sym3'),
    # pattern axis along y / z with exactly antiparallel copies (pattern pose given per instance)
    'S14': ('o1', [dict(motif='collinear3', pose='rz-90', at=(2.0, 5.0, 2.0)), dict(motif='collinear3', pose='rz90', at=(6.0, 3.0, 8.0)),
                   dict(motif='collinear3', pose='p2', at=(4.0, 9.0, 5.0))], 'collinear3'),
    'S15': ('t1', [dict(motif='planar3', pose='ry-90', at=(2.0, 3.0, 2.0)), dict(motif='planar3', pose='ry90', at=(6.0, 6.0, 5.0))], 'planar3'),
    # decoys that pass the pairwise-distance filter but are no rigid image: mirror of a weakly chiral motif, kinked chains
    'S16': ('o1', [dict(motif='weak-chiral6', pose='p1', at=(3.0, 3.0, 4.0)), dict(motif='weak-chiral6', pose='p3', at=(7.0, 8.0, 9.0), kind='mirror')], 'weak-chiral6'),
    'S17': ('t2', [dict(motif='near-collinear3', pose='p2', at=(2.0, 2.0, 2.0)),
                   dict(kind='raw', el=['O', 'C', 'S'], pos=[(0, 0, 0), (1.2, 0.3, 0), (2.7, 0, 0)], pose='p4', at=(6.0, 5.0, 5.0))], 'near-collinear3'),
    'S18': ('o2', [dict(motif='near-collinear4', pose='p5', at=(2.0, 4.0, 2.0)),
                   dict(kind='raw', el=['O', 'C', 'S', 'N'], pos=[(0, 0, 0), (1.2, 0.3, 0), (2.7, 0, 0), (3.9, 0.0, 0.01)], pose='p1', at=(4.5, 9.0, 5.0))], 'near-collinear4'),
    # same geometry with the embedded one-letter element in place of the two-letter one must not match
    'S19': ('o1', [dict(motif='ClCH', pose='p2', at=(2.0, 3.0, 3.0)),
                   dict(kind='raw', el=['C', 'C', 'H'], pos=[(0, 0, 0), (1.7, 0, 0), (2.2, 0.95, 0)], pose='p4', at=(9.2, 6.0, 7.0)),
                   dict(kind='raw', el=['Cu', 'C', 'H'], pos=[(0, 0, 0), (1.7, 0, 0), (2.2, 0.95, 0)], pose='p1', at=(5.0, 9.0, 2.0))], 'ClCH'),
    # pattern axis along a cube body diagonal with an exactly antiparallel copy
    'S20': ('o1', [dict(motif='collinear3', pose='antidiag111', at=(4.0, 5.0, 5.0)), dict(motif='collinear3', pose='diag111', at=(7.0, 2.0, 8.0))], 'collinear3'),
    'S21': ('t3', [dict(motif='planar3', pose='antidiag1-11', at=(3.0, 4.0, 3.0)), dict(motif='planar3', pose='p3', at=(6.0, 6.0, 5.0))], 'planar3'),
    # strongly tilted cell, copies whose long axis is roughly perpendicular to the a-c face (they stick out of the face by more than
    # (height/|b|) * pattern length when they straddle it)
    'S30': ('t5', [dict(motif='collinear3', pose='rz90', at=(6.0, 1.0, 3.0)), dict(motif='collinear3', pose='p1', at=(12.0, 4.0, 6.0)),
                   dict(motif='collinear3', pose='rz-90', at=(9.0, 3.5, 1.0))], 'collinear3'),
    'S31': ('t5', [dict(motif='chiral4', pose='rz90', at=(5.0, 1.5, 2.0)), dict(motif='chiral4', pose='p4', at=(11.0, 3.0, 6.5), kind='mirror'),
                   dict(motif='chiral4', pose='p2', at=(13.0, 4.5, 4.0))], 'chiral4'),
    # two copies whose orientations differ by 0.13 degrees (a quaternion rounded to two decimals does not tell them apart)
    'S32': ('o1', [dict(motif='chiral4', pose='p3', at=(2.0, 3.0, 4.0)), dict(motif='chiral4', pose='p3t', at=(6.5, 7.0, 8.0))], 'chiral4'),
    # occurrences that contain an atom together with its own periodic image (pattern as long as the cell edge); used by C02 / C03 only:
    # C01 speaks of DISTINCT atoms per match, which such a match cannot satisfy
    'S33': ('chain4', [dict(kind='raw', el=['Cu', 'O', 'He'], pos=[(0.5, 5.0, 5.0), (2.5, 5.3, 5.0), (1.0, 1.0, 8.0)])], 'CuOCu'),
    'S34': ('chain4t', [dict(kind='raw', el=['C', 'C', 'He'], pos=[(0.5, 5.0, 5.0), (2.5, 5.0, 5.0), (1.0, 1.0, 8.0)])], 'CCC-chain'),
    # the mirror-image candidate of the copy consists of periodic images of the SAME atoms (its off-plane atom taken one cell lower)
    'S35': ('ohalf', [dict(motif='halfcell4', pose='id', at=(3.0, 3.0, 1.5)), dict(motif='halfcell4', pose='rz90', at=(8.0, 7.0, 4.0))], 'halfcell4'),
    # a mixed-occupancy site: F and O listed at bit-identical coordinates, F first; the pattern needs the O
    'S36': ('o1', [dict(kind='raw', el=['F', 'C', 'H', 'N', 'O'], pos=[(0, 0, 1.4), (0, 0, 0), (1.0, 0, 0), (0, 1.2, 0), (0, 0, 1.4)], pose='p1', at=(2.0, 3.0, 4.0)),
                   dict(kind='raw', el=['C', 'H', 'N', 'O', 'O'], pos=[(0, 0, 0), (1.0, 0, 0), (0, 1.2, 0), (0, 0, 1.4), (0, 0, 1.4)], pose='p4', at=(6.5, 7.0, 8.0))], 'chiral4'),
    # six C-H copies whose first atom lies ON the a = 0 face of a triclinic cell (at u*b + v*c): its fractional a-coordinate computes to 0 or
    # to -O(1e-17) in floating point (used with a concrete zero shift along a; the exact model sees 0, the IEEE runs of the witnesses see the noise)
    'S37': ('t1', [dict(motif='pair', pose=ps, at=tuple(u * np.array(CELLS['t1'][1]) + v * np.array(CELLS['t1'][2])))
                   for ps, (u, v) in zip(['p1', 'p2', 'p3', 'p4', 'p5', 'id'], [(0.2, 0.3), (0.5, 0.6), (0.7, 0.15), (0.35, 0.8), (0.85, 0.45), (0.1, 0.7)])], 'pair'),
    # orthogonal cell whose vectors are not axis-aligned
    'S22': ('orot', [dict(motif='chiral4', pose='p1', at=(1.0, 6.0, 4.0)), dict(motif='chiral4', pose='p4', at=(-3.0, 9.0, 9.0)),
                     dict(motif='chiral4', pose='p2', at=(-1.0, 3.0, 7.0), kind='mirror')], 'chiral4'),
    # exact two-fold rotation about the pattern's own (x-aligned) axis
    'S23': ('o1', [dict(motif='xaxis4', pose='flipx', at=(2.0, 3.0, 4.0)), dict(motif='xaxis4', pose='id', at=(5.0, 8.0, 9.0))], 'xaxis4'),
    # far from the origin (a tolerance that scaled with the coordinate value would accept the pseudo-symmetric renumbering)
    'S24': ('big', [dict(motif='pseudo6', pose='p1', at=(50.0, 52.0, 49.0))], 'pseudo6'),
    'S29': ('big', [dict(motif='chiralflat4', pose='p1', at=(8.0, 9.0, 7.0)), dict(motif='chiralflat4', pose='p3', at=(48.0, 51.0, 50.0), kind='mirror'),
                    dict(motif='chiralflat4', pose='p5', at=(30.0, 45.0, 52.0))], 'chiralflat4'),
    'S28': ('big', [dict(motif='pseudoaxis5', pose='p2', at=(48.0, 51.0, 50.0))], 'pseudoaxis5'),
    'S28t': ('bigt', [dict(motif='pseudoaxis5', pose='p5', at=(33.0, 41.0, 44.0))], 'pseudoaxis5'),
    'S24t': ('bigt', [dict(motif='pseudo6', pose='p4', at=(35.0, 40.0, 45.0))], 'pseudo6'),
    # two copies stored site by site (see PERMS), first pattern element occurring twice
    'S25': ('o1', [dict(motif='mirror-pair5', pose='p2', at=(2.5, 3.0, 3.0)), dict(motif='mirror-pair5', pose='p5', at=(6.5, 7.5, 8.0))], 'mirror-pair5'),
    'S26': ('t1', [dict(motif='methanol6', pose='p1', at=(2.0, 2.5, 2.0)), dict(motif='methanol6', pose='p3', at=(5.5, 5.0, 4.0)),
                   dict(motif='methanol6', pose='flipy', at=(2.5, 7.0, 6.0))], 'methanol6'),
    # two occurrences sharing two atoms (C and F of a CH2F group; the second H is the mirror image of the first in the C-F plane... a
    # three-atom pattern is planar, so both C-F-H triples are proper images); discovery order follows the coordinate scan, not the indices
    'S27': ('o2', [dict(kind='raw', el=['H', 'C', 'F', 'H', 'Cl'], pos=[(-0.4, 0.9, 0.45), (0, 0, 0), (1.35, 0, 0), (-0.4, 0.9, -0.45), (-0.7, -1.5, 0.0)], pose='p3', at=(3.0, 6.0, 4.0))], 'CFH'),
    'S27b': ('o2', [dict(kind='raw', el=['H', 'C', 'F', 'H', 'Cl'], pos=[(-0.4, 0.9, -0.45), (0, 0, 0), (1.35, 0, 0), (-0.4, 0.9, 0.45), (-0.7, -1.5, 0.0)], pose='p3', at=(3.0, 6.0, 4.0))], 'CFH'),
    'S27c': ('t1', [dict(kind='raw', el=['H', 'H', 'C', 'F', 'Cl'], pos=[(-0.4, 0.9, -0.45), (-0.4, 0.9, 0.45), (0, 0, 0), (1.35, 0, 0), (-0.7, -1.5, 0.0)], pose='rz90', at=(3.0, 4.0, 3.0))], 'CFH'),
}
EXPECTED = {'S36': [(1, 2, 3, 4), (5, 6, 7, 8), (5, 6, 7, 9)], 'S33': [(0, 1, 0)], 'S34': [(0, 1, 0), (1, 0, 1)], 'S27': [(1, 2, 0), (1, 2, 3)], 'S27b': [(1, 2, 0), (1, 2, 3)], 'S27c': [(2, 3, 0), (2, 3, 1)]}
PERMS = {'S25': [0, 5, 1, 6, 2, 7, 3, 8, 4, 9]}
PAT_POSE = {'S14': 'rz90', 'S15': 'ry90', 'S20': 'diag111', 'S21': 'diag1-11'}
# stretch kind with factor 0.01 on a 1.3 A motif = 0.013 A: well inside the tolerance -> counts as an occurrence
OCCURRENCE_KINDS = ('copy', 'stretch')


def run_find(ctx, p):
    """place the structure under the (partly symbolic) shift, run the real find; returns a record"""
    cellname, clusters, motif = STRUCTS[p['struct']]
    cell = CELLS[cellname]
    els, pos, groups = build_clusters(clusters)
    shift = []
    for k in range(3):
        if k in p['axes']:
            lo, hi = (p.get('ranges') or {}).get(str(k), (0, 1))
            shift.append(ctx.real(f"t{k}", lo, hi))
        else:
            shift.append(float(p.get('other', (0, 0, 0))[k]))
    rows = place(ctx, pos, cell, shift)
    st, order = make_structure(ctx, els, rows, cell, perm=p.get('perm'))
    inv = {orig: new for new, orig in enumerate(order)}
    atol = A
    if p.get('atol') == 'sym':
        atol = ctx.real('atol', p.get('atol_lo', 0.01), p.get('atol_hi', 0.12))
    elif p.get('atol'):
        atol = float(p['atol'])
    ptrans = None
    if p.get('pat_translate') == 'sym':
        ptrans = [ctx.real(f"pt{c}", -20, 20) for c in range(3)]
    pat = make_pattern(ctx, motif, rigid=p.get('pat_pose'), translate=ptrans)
    if p.get('pat_elements'):
        # same geometry, other elements (one of them absent from the structure): nothing is an occurrence
        pat = make_pattern(ctx, None, elements=list(p['pat_elements']), positions=np.array(MOTIFS[motif][1], dtype=float), rigid=p.get('pat_pose'), translate=ptrans)
    pat0 = np.array(MOTIFS[motif][1], dtype=float)
    if p.get('pat_pose'):
        pat0 = pose(p['pat_pose']).apply(pat0)
    kw = {}
    for h in ('axisp1_idx', 'axisp2_idx', 'opoint_idx'):
        if p.get(h) is not None:
            kw[h] = p[h]
    Mm = ctx.ms.mofun
    hist = p.get('history')
    if hist == 'elements-changed':
        # HISTORY: a different structure with byte-identical coordinates and cell but other elements (an isostructural framework) is
        # searched first; the search under test must not be influenced by it
        uniq = sorted(set(els))
        nxt = {e: uniq[(uniq.index(e) + 1) % len(uniq)] for e in uniq}
        st0, _ = make_structure(ctx, [nxt[e] for e in els], rows, cell, perm=p.get('perm'))
        Mm.find_pattern_in_structure(st0, pat, atol=atol, return_positions_and_quats=True, **kw)
    elif hist == 'moved-in-place':
        # HISTORY: the same structure OBJECT was searched before at another placement; its coordinates were then edited in place
        # (same array object, as Atoms.translate / positions[i] += ... do)
        d = p.get('moved_by', (0.31, 0.17, 0.23))
        shift0 = []
        for k in range(3):
            v = shift[k] + d[k]
            if v >= 1.0:
                v = v - 1.0
            shift0.append(v)
        rows0 = place(ctx, pos, cell, shift0)
        keep = st.positions.copy()
        st.positions[:] = np.array([rows0[i] for i in order], dtype=st.positions.dtype)
        Mm.find_pattern_in_structure(st, pat, atol=atol, return_positions_and_quats=True, **kw)
        st.positions[:] = keep
    res = Mm.find_pattern_in_structure(st, pat, atol=atol, return_positions_and_quats=True, **kw)
    idx, mpos, quats = res
    idx = [tuple(int(i) for i in t) for t in idx]
    expected = [tuple(inv[i] for i in g) for kind, g in groups if kind in OCCURRENCE_KINDS and p['struct'] != 'S6']
    if p['struct'] == 'S6':
        expected = [(inv[i],) for i, e in enumerate(els) if e == 'H']
    if p['struct'] in EXPECTED:
        expected = [tuple(inv[i] for i in g) for g in EXPECTED[p['struct']]]
    if p.get('pat_elements'):
        expected = []
    return dict(st=st, pat=pat, pat0=pat0, idx=idx, mpos=mpos, quats=quats, expected=expected, atol=atol, cell=cell,
                els=[els[i] for i in order], motif=motif, groups=groups, inv=inv,
                pel=list(p['pat_elements']) if p.get('pat_elements') else list(MOTIFS[motif][0]))


def check_complete(ctx, R, label=''):
    got = sorted(tuple(sorted(t)) for t in R['idx'])
    want = sorted(tuple(sorted(t)) for t in R['expected'])
    ctx.observe(label + 'groups', [list(g) for g in got])
    ctx.require(label + 'every occurrence reported exactly once and nothing else (set of atom groups equals the planted set)',
                got == want, detail=dict(got=got, want=want))
    return got == want


def check_sound(ctx, R, label=''):
    st = R['st']
    n = len(R['pat0'])
    N = len(R['els'])
    pel = R['pel']
    for m, t in enumerate(R['idx']):
        ok = len(t) == n and len(set(t)) == n and all(0 <= i < N for i in t)
        ctx.require(label + 'match lists distinct existing atoms, one per pattern atom', ok, detail=dict(match=t))
        if not ok:
            continue
        ctx.require(label + "matched atoms have the pattern's elements in pattern order", [R['els'][i] for i in t] == list(pel),
                    detail=dict(match=t))
        check_match_geometry(ctx, st, R['pat0'], t, R['mpos'][m], R['quats'][m], R['atol'], R['cell'], label)
    mirror = [tuple(sorted(R['inv'][i] for i in g)) for kind, g in R['groups'] if kind in ('mirror', 'nearmiss')]
    ctx.require(label + 'mirror images and clear misses are never reported',
                not any(tuple(sorted(t)) in mirror for t in R['idx']))


def std_instances(tier, seed, families=('face',)):
    """the shared catalogue: one symbolic shift axis per instance (quick); pairs of axes, symbolic atol (thorough)"""
    rng = np.random.default_rng(seed)
    out = []

    def add(name, **kw):
        kw.setdefault('family', 'find')
        out.append(dict(name=name, **kw))
    others = [(0.0, 0.0, 0.0), (0.37, 0.93, 0.55)]
    quick_structs = ['S1', 'S2', 'S3', 'S4', 'S5', 'S6', 'S8', 'S10', 'S11', 'S12', 'S13', 'S14', 'S15', 'S16', 'S17', 'S18', 'S19', 'S20', 'S21', 'S22', 'S23', 'S24', 'S24t', 'S25', 'S26', 'S27', 'S28', 'S28t', 'S29']
    if tier == 'thorough':
        quick_structs.append('S9')
    for sname in quick_structs:
        for ax in range(3):
            o = others[(ax + len(sname)) % 2]
            if STRUCTS[sname][0] in ('big', 'bigt'):
                o = (0.01, 0.02, 0.03)       # stay far from the origin on the concrete axes
            if tier == 'quick' and sname in ('S3', 'S5', 'S6', 'S8', 'S10', 'S11', 'S12', 'S13', 'S14', 'S15', 'S16', 'S17', 'S18', 'S19', 'S20', 'S21', 'S22', 'S23', 'S24', 'S24t', 'S25', 'S26', 'S28', 'S28t', 'S29') and ax != (1 if sname.endswith('t') else (len(sname) + int(sname[1:])) % 3):
                continue
            add(f"find:{sname}:axis{ax}:other{others.index(o) if o in others else 2}", struct=sname, axes=[ax], other=o, cost=15,
                **({'pat_pose': PAT_POSE[sname]} if sname in PAT_POSE else {}), **({'perm': PERMS[sname]} if sname in PERMS else {}))
    for ax in (0, 1, 2):
        add(f"find:S27:axis{ax}:two-occurrences-sharing-atoms", struct='S27', axes=[ax], other=(0.15, 0.8, 0.45), cost=10)
        add(f"find:S27b:axis{ax}:two-occurrences-sharing-atoms:scan-order-against-index-order", struct='S27b', axes=[ax], other=(0.15, 0.8, 0.45), cost=10)
        add(f"find:S27c:axis{ax}:two-occurrences-sharing-atoms", struct='S27c', axes=[ax], other=(0.65, 0.1, 0.45), cost=10)
    for sname in ('S30', 'S31'):
        add(f"find:{sname}:axis1:strongly-tilted-cell", struct=sname, axes=[1], other=(0.15, 0, 0.4), cost=40)
    for ax in (0, 2):
        add(f"find:S35:axis{ax}:off-plane-atom-half-a-cell-edge-above-the-plane", struct='S35', axes=[ax], other=(0.1, 0.3, 0.2), cost=20)
    add("find:S36:axis1:two-atoms-at-identical-coordinates", struct='S36', axes=[1], other=(0.2, 0, 0.6), cost=25)
    add("find:S36:axis0:two-atoms-at-identical-coordinates", struct='S36', axes=[0], other=(0, 0.5, 0.1), cost=25)
    for ax in (1, 2):
        add(f"find:S37:axis{ax}:first-atoms-on-a-cell-face", struct='S37', axes=[ax], other=(0.0, 0.0, 0.0), cost=40)
    add("find:S30:axis0:strongly-tilted-cell", struct='S30', axes=[0], other=(0, 0.55, 0.8), cost=40)
    # a pattern element that does not occur in the structure at all (and sorts before / after the ones that do): no match
    add("find:S5:axis0:pattern-element-absent-from-structure:B", struct='S5', axes=[0], other=(0, 0.4, 0.7), pat_elements=['B', 'H'], cost=10)
    add("find:S3:axis1:pattern-element-absent-from-structure:F", struct='S3', axes=[1], other=(0.2, 0, 0.7), pat_elements=['C', 'F', 'O'], cost=10)
    add("find:S1:axis2:pattern-element-absent-from-structure:Zr", struct='S1', axes=[2], other=(0.2, 0.6, 0), pat_elements=['C', 'H', 'N', 'Zr'], cost=10)
    # histories: an earlier search must not influence a later one (same object edited in place / another structure with the same coordinates)
    add("find:S1:axis0:history:moved-in-place", struct='S1', axes=[0], other=(0, 0.3, 0.6), history='moved-in-place', cost=40)
    add("find:S2:axis2:history:moved-in-place", struct='S2', axes=[2], other=(0.2, 0.3, 0), history='moved-in-place', cost=40)
    add("find:S1:axis1:history:elements-changed", struct='S1', axes=[1], other=(0.8, 0, 0.6), history='elements-changed', cost=30)
    add("find:S3:axis2:history:elements-changed", struct='S3', axes=[2], other=(0.1, 0.5, 0), history='elements-changed', cost=30)
    add("find:S7:axis0:ch4-random-choice", struct='S7', axes=[0], other=(0, 0.4, 0.9), cost=60)
    add("find:S7:axis2:ch4-swapped-storage-order", struct='S7', axes=[2], other=(0.3, 0.4, 0), perm=[0, 2, 1, 3, 4], cost=60)
    add("find:S12:axis1:swapped-storage-order", struct='S12', axes=[1], other=(0.3, 0, 0.9), perm=[0, 2, 1, 3, 5, 4], cost=30)
    # edge crossing: two symbolic shift axes, each restricted to the window in which the planted copy crosses that face
    add("find:S1:edge-window:axes01", struct='S1', axes=[0, 1], other=(0, 0, 0.3), ranges={'0': (0.72, 0.86), '1': (0.64, 0.78)}, cost=60)
    # corner crossing: three symbolic shift axes in the windows where the copy crosses all three faces
    add("find:S1:corner-window:axes012", struct='S1', axes=[0, 1, 2], other=(0, 0, 0), ranges={'0': (0.72, 0.86), '1': (0.64, 0.78), '2': (0.55, 0.72)}, cost=90)
    add("find:S1:axis0:atol-sym", struct='S1', axes=[0], other=(0, 0.3, 0.95), atol='sym', atol_lo=0.01, atol_hi=0.2, cost=40)
    if tier == 'thorough':
        for sname in ['S1', 'S2', 'S4']:
            for axes in ([0, 1], [1, 2], [0, 2]):
                add(f"find:{sname}:axes{axes}", struct=sname, axes=axes, other=(0.21, 0.47, 0.83), cost=600)
        add("find:S2:corner-window:axes012:triclinic", struct='S2', axes=[0, 1, 2], other=(0, 0, 0), ranges={'0': (0.80, 0.95), '1': (0.70, 0.85), '2': (0.72, 0.86)}, cost=1500)
        add("find:S9:edge-window:axes02:arbitrary-orientation", struct='S9', axes=[0, 2], other=(0, 0.3, 0), ranges={'0': (0.85, 0.99), '2': (0.8, 0.99)}, cost=900)
        for sname in ['S2', 'S3', 'S5', 'S12']:
            add(f"find:{sname}:axis1:atol-sym", struct=sname, axes=[1], other=(0.9, 0, 0.2), atol='sym', atol_lo=0.01,
                atol_hi=0.05 if sname == 'S2' else 0.12, cost=100)
        for ax in (1, 2):
            add(f"find:S7:axis{ax}:ch4-random-choice", struct='S7', axes=[ax], other=(0.95, 0.4, 0.9), cost=100)
        for k in range(6):
            o = tuple(float(x) for x in rng.uniform(0, 1, 3))
            sname = ['S1', 'S2', 'S9', 'S11', 'S4', 'S10'][k]
            add(f"find:{sname}:axis{k % 3}:seeded-other{k}", struct=sname, axes=[k % 3], other=o, cost=30)
    return out


# ------------------------------------------------------------------------------------------------ family F2a: axis world
def axis_instances(tier):
    out = [dict(name='axis:CH-in-[C,H]', family='axis', elems=['C', 'H'], pat_el=['C', 'H'], pat_x=[0.0, 1.0], cost=40),
           dict(name='axis:CC-in-[C,C]', family='axis', elems=['C', 'C'], pat_el=['C', 'C'], pat_x=[0.0, 1.5], cost=40)]
    if tier == 'thorough':
        out.append(dict(name='axis:CH-in-[C,H,H]', family='axis', elems=['C', 'H', 'H'], pat_el=['C', 'H'], pat_x=[0.0, 1.0], cost=1500))
        out.append(dict(name='axis:HC-in-[C,H,C]', family='axis', elems=['C', 'H', 'C'], pat_el=['H', 'C'], pat_x=[0.3, 1.6], cost=1500))
    return out


def axis_body(ctx, p):
    """all atoms on a line parallel to x: EVERY x-coordinate, the cell width a and the tolerance are symbolic (all geometry is linear:
    sqrt(t*t) = |t|).  Oracle for the 2-atom pattern at distance D: the ordered pair (i, j) is an occurrence iff for some image k in
    {-1,0,1}  | |x_j + k*a - x_i| - D | <= atol  (two-sided with 1e-6 slack); returned positions = stored + (k*a,0,0); rotation check."""
    Atoms = ctx.ms.Atoms
    Mm = ctx.ms.mofun
    elems, pat_el, pat_x = p['elems'], p['pat_el'], p['pat_x']
    N = len(elems)
    D = max(pat_x) - min(pat_x)
    atol = ctx.real('atol', 0.001, 0.2, hi_strict=False)
    a = ctx.real('a', 1.0, 30.0, hi_strict=False)
    ctx.assume(a > D + 2 * atol + 0.001)
    xs = [ctx.real(f"x{i}", 0, 30) for i in range(N)]
    for x in xs:
        ctx.assume(x < a)
    pattern = Atoms(elements=pat_el, positions=[(x, 0, 0) for x in pat_x])
    st = Atoms(elements=elems, positions=np.zeros((N, 3)), cell=10 * np.identity(3))
    if ctx.sym:
        pattern.positions = pattern.positions.astype(object)
        st.positions = np.array([[x, 5.0, 5.0] for x in xs], dtype=object)
        st.cell = np.array([[a, 0.0, 0.0], [0.0, 10.0, 0.0], [0.0, 0.0, 10.0]], dtype=object)
    else:
        st.positions = np.array([[x, 5.0, 5.0] for x in xs], dtype=float)
        st.cell = np.array([[a, 0.0, 0.0], [0.0, 10.0, 0.0], [0.0, 0.0, 10.0]], dtype=float)
    idx, pos, quats = Mm.find_pattern_in_structure(st, pattern, atol=atol, return_positions_and_quats=True)
    idx = [tuple(int(i) for i in t) for t in idx]
    ctx.observe('matches', sorted(idx))
    found = set(idx)
    ctx.require('no match reported twice', len(found) == len(idx))
    eps = 1e-6
    with core.nosimplify():
        homo = pat_el[0] == pat_el[1]
        if homo:
            ctx.require('a symmetric pattern reports each atom group once (not both orderings)', not any((j, i) in found for (i, j) in found))
        for i in range(N):
            for j in range(N):
                if i == j or elems[i] != pat_el[0] or elems[j] != pat_el[1] or (homo and j < i):
                    continue
                dist = [abs(xs[j] + k * a - xs[i]) for k in (-1, 0, 1)]
                inside = OR(*[AND(d - D <= atol - eps, D - d <= atol - eps) for d in dist])
                outside = AND(*[OR(d - D >= atol + eps, D - d >= atol + eps) for d in dist])
                if (i, j) in found or (homo and (j, i) in found):
                    ctx.require('a reported pair is not clearly outside the tolerance (for any periodic image)', NOT(outside), detail=dict(pair=(i, j)))
                else:
                    ctx.require('a pair clearly inside the tolerance (through some periodic image) is reported', NOT(inside), detail=dict(pair=(i, j)))
        for t in found:
            ctx.require('match lists distinct existing atoms with the pattern elements',
                        len(t) == 2 and t[0] != t[1] and all(0 <= q < N for q in t) and elems[t[0]] == pat_el[0] and elems[t[1]] == pat_el[1], detail=dict(match=t))
        pp = np.array([(x, 0.0, 0.0) for x in pat_x])
        for t, ps, q in zip(idx, pos, quats):
            r = q.r if hasattr(q, 'r') else q
            rp = r.apply(pp - pp[0])
            for m, ai in enumerate(t):
                dx = ps[m][0] - xs[ai]
                ctx.require('returned position = stored position plus a lattice vector', AND(OR(EQ(dx, 0), EQ(dx, a), EQ(dx, -a)), EQ(ps[m][1], 5.0), EQ(ps[m][2], 5.0)),
                            detail=dict(match=t, atom=m))
                for c in range(3):
                    d = ps[m][c] - ps[0][c] - float(rp[m][c])
                    ctx.require('returned rotation carries the pattern onto the returned positions within the tolerance', AND(d <= atol + 1e-3, -d <= atol + 1e-3),
                                detail=dict(match=t, atom=m, comp=c))
