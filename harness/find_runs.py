"""shared instance catalogue and runner for the end-to-end search harnesses (C01, C02, C03)"""
import numpy as np

from harness.find_common import *
from symnp import core

A = 0.05   # default tolerance

STRUCTS = {
    # name: (cell, clusters, pattern motif)
    'S1': ('o1', [dict(motif='chiral4', pose='p1', at=(2, 3, 4)), dict(motif='chiral4', pose='p2', at=(6.5, 7, 8), kind='mirror')], 'chiral4'),
    'S2': ('t1', [dict(motif='chiral4', pose='p3', at=(1.0, 2.0, 1.5)), dict(motif='chiral4', pose='p4', at=(5.5, 6.0, 5.0)),
                  dict(motif='chiral4', pose='p5', at=(8.0, 2.5, 6.5), kind='nearmiss', atom=3, by=(0.0, 0.16, 0.0))], 'chiral4'),
    'S3': ('o2', [dict(motif='planar3', pose='flipx', at=(1.0, 2.0, 1.0)), dict(motif='planar3', pose='rz90', at=(4.5, 8.0, 5.0)),
                  dict(kind='raw', el=['C', 'N', 'O'], pos=[(6.5, 1.0, 7.0), (2.0, 11.0, 3.0), (5.9, 5.0, 2.2)])], 'planar3'),
    'S4': ('o1', [dict(motif='collinear3', pose='id', at=(1.0, 1.5, 2.0)), dict(motif='collinear3', pose='flipz', at=(7.0, 6.0, 6.5)),
                  dict(motif='collinear3', pose='p1', at=(4.0, 9.0, 10.0))], 'collinear3'),
    'S5': ('t2', [dict(motif='pair', pose='id', at=(1.0, 1.0, 1.0)), dict(motif='pair', pose='flipy', at=(4.0, 3.0, 2.0)),
                  dict(motif='pair', pose='p2', at=(6.0, 6.5, 5.5)), dict(kind='raw', el=['H', 'C'], pos=[(2.0, 5.0, 6.5), (8.0, 1.0, 3.0)])], 'pair'),
    'S6': ('o3', [dict(kind='raw', el=['H', 'C', 'H', 'O', 'H'], pos=[(0.5, 0.5, 0.5), (2.0, 2.0, 2.0), (6.0, 3.0, 1.0), (4.0, 4.0, 4.0), (3.0, 6.2, 5.5)])], 'single'),
    'S7': ('o1', [dict(motif='ch4', pose='p1', at=(3.0, 4.0, 5.0))], 'ch4'),
    'S8': ('t3', [dict(motif='linear-sym3', pose='p2', at=(2.0, 2.0, 2.0)), dict(motif='linear-sym3', pose='id', at=(6.0, 5.0, 5.0))], 'linear-sym3'),
    'S9': ('tr', [dict(motif='chiral5', pose='p4', at=(0.5, 0.8, 0.2)), dict(motif='chiral5', pose='p1', at=(3.0, 4.0, -2.0), kind='mirror')], 'chiral5'),
    'S10': ('t4', [dict(motif='trig-sym4', pose='p5', at=(2.0, 3.0, 3.0), kind='stretch', factor=0.01),
                   dict(kind='raw', el=['F', 'B', 'F'], pos=[(6.0, 7.0, 7.0), (7.5, 2.0, 1.0), (1.0, 8.0, 5.0)])], 'trig-sym4'),
    'S13': ('o1', [dict(motif='collinear3', pose='id', at=(2.0, 2.0, 2.0), kind='stretch', factor=0.008),
                   dict(motif='collinear3', pose='rz90', at=(6.0, 3.0, 8.0), kind='stretch', factor=0.008),
                   dict(motif='collinear3', pose='ry90', at=(3.0, 8.0, 5.0), kind='stretch', factor=-0.008)], 'collinear3'),
    'S11': ('o1', [dict(motif='chiral4', pose='near-anti', at=(2, 3, 4)), dict(motif='chiral4', pose='near-par', at=(6, 7, 8)),
                   dict(motif='chiral4', pose='flipy', at=(2.5, 8.0, 9.0))], 'chiral4'),
    'S12': ('o2', [dict(motif='ch2-sym3', pose='p3', at=(2.0, 3.0, 3.0)), dict(motif='ch2-sym3', pose='ry90', at=(5.0, 9.0, 6.0))], 'ch2-sym3'),
    # pattern axis along y / z with exactly antiparallel copies (pattern pose given per instance)
    'S14': ('o1', [dict(motif='collinear3', pose='rz-90', at=(2.0, 5.0, 2.0)), dict(motif='collinear3', pose='rz90', at=(6.0, 3.0, 8.0)),
                   dict(motif='collinear3', pose='p2', at=(4.0, 9.0, 5.0))], 'collinear3'),
    'S15': ('t1', [dict(motif='planar3', pose='ry-90', at=(2.0, 3.0, 2.0)), dict(motif='planar3', pose='ry90', at=(6.0, 6.0, 5.0))], 'planar3'),
    # decoys that pass the pairwise-distance filter but are no rigid image: mirror of a weakly chiral motif, kinked chains
    'S16': ('o1', [dict(motif='weak-chiral6', pose='p1', at=(3.0, 3.0, 4.0)), dict(motif='weak-chiral6', pose='p3', at=(7.0, 8.0, 9.0), kind='mirror')], 'weak-chiral6'),
    'S17': ('t2', [dict(motif='near-collinear3', pose='p2', at=(2.0, 2.0, 2.0)),
                   dict(kind='raw', el=['O', 'C', 'S'], pos=[(0, 0, 0), (1.2, 0.3, 0), (2.7, 0, 0)], pose='p4', at=(6.0, 5.0, 5.0))], 'near-collinear3'),
    'S18': ('o2', [dict(motif='near-collinear4', pose='p5', at=(2.0, 4.0, 2.0)),
                   dict(kind='raw', el=['O', 'C', 'S', 'N'], pos=[(0, 0, 0), (1.2, 0.3, 0), (2.7, 0, 0), (3.9, 0.0, 0.01)], pose='p1', at=(4.5, 9.0, 5.0))], 'near-collinear4'),
}
PAT_POSE = {'S14': 'rz90', 'S15': 'ry90'}
# stretch kind with factor 0.01 on a 1.3 A motif = 0.013 A: well inside the tolerance -> counts as an occurrence
OCCURRENCE_KINDS = ('copy', 'stretch')


def run_find(ctx, p):
    """place the structure under the (partly symbolic) shift, run the real find; returns a record"""
    cellname, clusters, motif = STRUCTS[p['struct']]
    cell = CELLS[cellname]
    els, pos, groups = build_clusters(clusters)
    shift = []
    for k in range(3):
        if k in p['axes']:
            shift.append(ctx.real(f"t{k}", 0, 1))
        else:
            shift.append(float(p.get('other', (0, 0, 0))[k]))
    rows = place(ctx, pos, cell, shift)
    st, order = make_structure(ctx, els, rows, cell, perm=p.get('perm'))
    inv = {orig: new for new, orig in enumerate(order)}
    atol = A
    if p.get('atol') == 'sym':
        atol = ctx.real('atol', p.get('atol_lo', 0.01), p.get('atol_hi', 0.12))
    elif p.get('atol'):
        atol = float(p['atol'])
    ptrans = None
    if p.get('pat_translate') == 'sym':
        ptrans = [ctx.real(f"pt{c}", -20, 20) for c in range(3)]
    pat = make_pattern(ctx, motif, rigid=p.get('pat_pose'), translate=ptrans)
    pat0 = np.array(MOTIFS[motif][1], dtype=float)
    if p.get('pat_pose'):
        pat0 = pose(p['pat_pose']).apply(pat0)
    kw = {}
    for h in ('axisp1_idx', 'axisp2_idx', 'opoint_idx'):
        if p.get(h) is not None:
            kw[h] = p[h]
    Mm = ctx.ms.mofun
    res = Mm.find_pattern_in_structure(st, pat, atol=atol, return_positions_and_quats=True, **kw)
    idx, mpos, quats = res
    idx = [tuple(int(i) for i in t) for t in idx]
    expected = [tuple(inv[i] for i in g) for kind, g in groups if kind in OCCURRENCE_KINDS and p['struct'] != 'S6']
    if p['struct'] == 'S6':
        expected = [(inv[i],) for i, e in enumerate(els) if e == 'H']
    return dict(st=st, pat=pat, pat0=pat0, idx=idx, mpos=mpos, quats=quats, expected=expected, atol=atol, cell=cell,
                els=[els[i] for i in order], motif=motif, groups=groups, inv=inv)


def check_complete(ctx, R, label=''):
    got = sorted(tuple(sorted(t)) for t in R['idx'])
    want = sorted(tuple(sorted(t)) for t in R['expected'])
    ctx.observe(label + 'groups', [list(g) for g in got])
    ctx.require(label + 'every occurrence reported exactly once and nothing else (set of atom groups equals the planted set)',
                got == want, detail=dict(got=got, want=want))
    return got == want


def check_sound(ctx, R, label=''):
    st = R['st']
    n = len(R['pat0'])
    N = len(R['els'])
    pel = MOTIFS[R['motif']][0]
    for m, t in enumerate(R['idx']):
        ok = len(t) == n and len(set(t)) == n and all(0 <= i < N for i in t)
        ctx.require(label + 'match lists distinct existing atoms, one per pattern atom', ok, detail=dict(match=t))
        if not ok:
            continue
        ctx.require(label + "matched atoms have the pattern's elements in pattern order", [R['els'][i] for i in t] == list(pel),
                    detail=dict(match=t))
        check_match_geometry(ctx, st, R['pat0'], t, R['mpos'][m], R['quats'][m], R['atol'], R['cell'], label)
    mirror = [tuple(sorted(R['inv'][i] for i in g)) for kind, g in R['groups'] if kind in ('mirror', 'nearmiss')]
    ctx.require(label + 'mirror images and clear misses are never reported',
                not any(tuple(sorted(t)) in mirror for t in R['idx']))


def std_instances(tier, seed, families=('face',)):
    """the shared catalogue: one symbolic shift axis per instance (quick); pairs of axes, symbolic atol (thorough)"""
    rng = np.random.default_rng(seed)
    out = []

    def add(name, **kw):
        kw.setdefault('family', 'find')
        out.append(dict(name=name, **kw))
    others = [(0.0, 0.0, 0.0), (0.37, 0.93, 0.55)]
    quick_structs = ['S1', 'S2', 'S3', 'S4', 'S5', 'S6', 'S8', 'S10', 'S11', 'S12', 'S13', 'S14', 'S15', 'S16', 'S17', 'S18']
    if tier == 'thorough':
        quick_structs.append('S9')
    for sname in quick_structs:
        for ax in range(3):
            o = others[(ax + len(sname)) % 2]
            if tier == 'quick' and sname in ('S3', 'S5', 'S6', 'S8', 'S10', 'S11', 'S12', 'S13', 'S14', 'S15', 'S16', 'S17', 'S18') and ax != (len(sname) + int(sname[1:])) % 3:
                continue
            add(f"find:{sname}:axis{ax}:other{others.index(o)}", struct=sname, axes=[ax], other=o, cost=15,
                **({'pat_pose': PAT_POSE[sname]} if sname in PAT_POSE else {}))
    add("find:S7:axis0:ch4-random-choice", struct='S7', axes=[0], other=(0, 0.4, 0.9), cost=60)
    add("find:S1:axis0:atol-sym", struct='S1', axes=[0], other=(0, 0.3, 0.95), atol='sym', atol_lo=0.01, atol_hi=0.2, cost=40)
    if tier == 'thorough':
        for sname in ['S1', 'S2', 'S4']:
            for axes in ([0, 1], [1, 2], [0, 2]):
                add(f"find:{sname}:axes{axes}", struct=sname, axes=axes, other=(0.21, 0.47, 0.83), cost=600)
        for sname in ['S2', 'S3', 'S5', 'S12']:
            add(f"find:{sname}:axis1:atol-sym", struct=sname, axes=[1], other=(0.9, 0, 0.2), atol='sym', atol_lo=0.01,
                atol_hi=0.05 if sname == 'S2' else 0.12, cost=100)
        for ax in (1, 2):
            add(f"find:S7:axis{ax}:ch4-random-choice", struct='S7', axes=[ax], other=(0.95, 0.4, 0.9), cost=100)
        for k in range(6):
            o = tuple(float(x) for x in rng.uniform(0, 1, 3))
            sname = ['S1', 'S2', 'S9', 'S11', 'S4', 'S10'][k]
            add(f"find:{sname}:axis{k % 3}:seeded-other{k}", struct=sname, axes=[k % 3], other=o, cost=30)
    return out
