"""C14 - elements inferred from masses are the nearest element within tolerance.
The real helpers.guess_elements_from_masses runs with a symbolic mass (any real) and a symbolic tolerance; z3 (linear real
arithmetic) decides on every path that the returned element is within tolerance and nearest among all 118 table entries, and
that the call raises iff no element is within tolerance.  A second family runs the load_lmpdat fallback wiring concretely
for every element (exhaustive over the table) and for out-of-order neighbours."""
from symnp import core
from symnp.core import AND, OR, NOT, IMPLIES, EQ, Sym

PROPERTY = 'C14'
LEVEL = 'model_checking'
FUNCTIONS = ['mofun.helpers.guess_elements_from_masses', 'mofun.helpers.guess_elements_from_masses.find_element',
             'mofun.atoms.Atoms.load_lmpdat (element/label fallback)']
BOUNDS = {'quick': 'one symbolic mass in (-10, 400) and symbolic tolerance in (0, 0.6]: all paths (one per nearest-element region); two-call '
                   'histories (loose then tight tolerance on the same mass; two masses in one call); table-exhaustive fixed-point corollary',
          'thorough': 'as quick (incl. Atoms.load_lmpdat on a two-type file with symbolic masses/tolerance and four kinds of Masses comments) plus lists of 3 symbolic masses'}
OUTSIDE = ['IEEE rounding of the one subtraction (decisions can differ only for masses within 1 ulp of a boundary)']
ASSUMPTIONS = ['mass table = mofun.atomic_masses.ATOMIC_MASSES as found in /repo at run time']
STUBS = []
OPTS = {'timeout_ms': 20000}


def instances(tier, seed):
    out = [dict(name=f'nearest:one-mass:{lo}..{hi}', family='nearest', n=1, lo=lo, hi=hi, cost=30)
           for lo, hi in [(-10, 30), (30, 60), (60, 90), (90, 120), (120, 150), (150, 180), (180, 210), (210, 250), (250, 400)]]
    out += [
           dict(name='nearest:two-masses-one-call', family='nearest', n=2, lo=38, hi=41, cost=60),
           dict(name='fixed-points:table-exhaustive', family='fixedpoint', cost=5),
           dict(name='lmpdat-fallback', family='fallback', cost=5)]
    # the reader itself on a file whose masses are symbolic, with and without comments on the Masses lines
    for lab in ('none', 'elements', 'other-elements', 'ff-labels'):
        out.append(dict(name=f'lmpdat-sym:{lab}', family='lmpdat-sym', labels=lab, cost=20))
    out += [dict(name=f'history:loose-then-tight:{lo}..{hi}', family='history', allow_realise=True, lo=lo, hi=hi, cost=30)
            for lo, hi in [(0.5, 30), (30, 70), (70, 130), (130, 200), (200, 300)]]
    for k, (lo, hi) in enumerate([(38.5, 40.5), (58, 59.5), (126, 128.5), (231, 233), (237, 239)]):
        out.append(dict(name=f'nearest:out-of-order-window{k}', family='nearest', n=1, lo=lo, hi=hi, cost=5))
    if tier == 'thorough':
        out.append(dict(name='nearest:three-masses', family='nearest', n=3, lo=54, hi=60, cost=300))
    return out


def modset_kwargs(p):
    if p.get('family') == 'lmpdat-sym':
        return dict(fmt=True, key='fmt')
    return dict(key='plain')


def oracle(ctx, table, m, tol, result, raised, label=''):
    items = list(table.items())
    within = [AND(m - mass < tol, mass - m < tol) for _, mass in items]
    if raised:
        ctx.require(label + 'raises only when no element is within tolerance', NOT(OR(*within)))
        return
    if result not in table:
        ctx.fail(label + 'returns an element of the table', detail=dict(result=str(result)))
        return
    mr = table[result]
    d = abs(m - mr)
    ctx.require(label + 'returned element lies within the tolerance of the mass', d < tol, detail=dict(element=result))
    ctx.require(label + 'returned element is the closest one', AND(*[d <= abs(m - mass) for _, mass in items]), detail=dict(element=result))


def body(ctx, p):
    H = ctx.ms.helpers
    table = ctx.ms.get('mofun.atomic_masses').ATOMIC_MASSES
    fam = p['family']
    if fam == 'nearest':
        n = p['n']
        ms = [ctx.real(f"m{i}", p.get('lo', -10), p.get('hi', 400)) for i in range(n)]
        tol = ctx.real('tol', 1e-4, 0.6, hi_strict=False)
        try:
            res = H.guess_elements_from_masses(ms, max_delta=tol)
            raised = False
        except Exception as ex:
            if not isinstance(ex, Exception) or 'no element matching' not in str(ex):
                raise
            raised = True
        with core.nosimplify():
            if raised:
                ctx.observe('raised', True)
                ctx.require('raises only when some mass has no element within tolerance',
                            OR(*[NOT(OR(*[AND(m - mass < tol, mass - m < tol) for mass in table.values()])) for m in ms]))
            else:
                ctx.observe('result', list(res))
                ctx.require('one element per mass', len(res) == n)
                for i in range(n):
                    oracle(ctx, table, ms[i], tol, res[i], False, label=f'mass {i}: ')
    elif fam == 'history':
        # the answer to a call must not depend on earlier calls: loose tolerance first, then a tight one on the same mass
        m = ctx.real('m', p.get('lo', 0.5), p.get('hi', 300))
        t1 = ctx.real('tol1', 0.2, 0.6)
        t2 = ctx.real('tol2', 1e-3, 0.1)
        ctx.assume(OR(*[AND(m - mass < t1, mass - m < t1) for mass in table.values()]))
        ctx.assume(NOT(OR(*[AND(m - mass < t2, mass - m < t2) for mass in table.values()])))
        r1 = H.guess_elements_from_masses([m], max_delta=t1)
        try:
            r2 = H.guess_elements_from_masses([m], max_delta=t2)
            raised2 = False
        except Exception:
            raised2 = True
        ctx.observe('second_raised', raised2)
        with core.nosimplify():
            oracle(ctx, table, m, t1, r1[0], False, label='1st call: ')
            oracle(ctx, table, m, t2, None if raised2 else r2[0], raised2, label='2nd call: ')
    elif fam == 'fixedpoint':
        # corollary: every element whose mass differs from all others by more than 2*tol is a fixed point (tol = 0.1)
        tol = 0.1
        bad = []
        names = list(table)
        for e in names:
            if all(abs(table[e] - table[f]) > 2 * tol for f in names if f != e):
                got = H.guess_elements_from_masses([table[e]], max_delta=tol)
                if got != [e]:
                    bad.append((e, got))
        ctx.observe('distinguishable_elements', sum(1 for e in names if all(abs(table[e] - table[f]) > 2 * tol for f in names if f != e)))
        ctx.require('every distinguishable element survives mass guessing', not bad, detail=dict(bad=bad[:5]))
        # out-of-order neighbours, both sides of each boundary
        for a, b in [('Ar', 'K'), ('Co', 'Ni'), ('Te', 'I'), ('Th', 'Pa'), ('U', 'Np')]:
            for e in (a, b):
                for dm in (-0.04, 0.0, 0.04):
                    got = H.guess_elements_from_masses([table[e] + dm], max_delta=tol)
                    ctx.require('out-of-order neighbours are told apart', got == [e], detail=dict(element=e, dm=dm, got=got))
    elif fam == 'lmpdat-sym':
        # Atoms.load_lmpdat on a data file with two atom types whose masses are symbolic (windows around C..N and Ar..Ca) and
        # a symbolic guessing tolerance; the Masses lines carry no comment / the right element / a different element / a
        # force-field label.  Whatever the comments say, the elements come from the masses or are type numbers for ALL types.
        import io
        fm = ctx.ms.fmtmodel
        Atoms = ctx.ms.Atoms
        m0 = ctx.real('m0', 11.5, 14.5)
        m1 = ctx.real('m1', 38.5, 40.5)
        tol = ctx.real('tol', 0, 0.5)        # including an explicit 0: nothing is within tolerance, so no element may be invented
        tok = (lambda x: fm.exact_token(x)) if ctx.sym else (lambda x: repr(float(x)))
        com = {'none': ('', ''), 'elements': ('   # C', '   # K'), 'other-elements': ('   # Zr', '   # O'), 'ff-labels': ('   # C_R', '   # K_'),
               }[p['labels']]
        txt = ("x\n\n3 atoms\n0 bonds\n0 angles\n0 dihedrals\n0 impropers\n\n2 atom types\n 0.0 10.0 xlo xhi\n 0.0 10.0 ylo yhi\n 0.0 10.0 zlo zhi\n"
               "\nMasses\n\n 1 %s%s\n 2 %s%s\n\nAtoms\n\n 1 1 1 0.0 1.0 1.0 1.0\n 2 1 2 0.0 2.0 2.0 2.0\n 3 1 1 0.0 3.0 3.0 3.0\n") % (tok(m0), com[0], tok(m1), com[1])
        a = Atoms.load_lmpdat(io.StringIO(txt), guess_atol=tol)
        got = [str(e) for e in a.atom_type_elements]
        ctx.observe('elements', got)
        with core.nosimplify():
            w0 = OR(*[AND(m0 - mass < tol, mass - m0 < tol) for mass in table.values()])
            w1 = OR(*[AND(m1 - mass < tol, mass - m1 < tol) for mass in table.values()])
            if got == ['1', '2']:
                ctx.require('type numbers only when some mass has no element within tolerance', NOT(AND(w0, w1)))
            elif len(got) == 2 and all(g in table for g in got):
                ctx.require('elements only when every mass has an element within tolerance (none invented)', AND(w0, w1))
                oracle(ctx, table, m0, tol, got[0], False, label='type 1: ')
                oracle(ctx, table, m1, tol, got[1], False, label='type 2: ')
            else:
                ctx.fail('atom type elements are table elements for every type or type numbers for every type', detail=dict(got=got))
        ctx.require('per-atom elements follow the atom types', [str(e) for e in a.elements] == [got[0], got[1], got[0]], detail=dict(got=[str(e) for e in a.elements]))
    elif fam == 'fallback':
        import io
        Atoms = ctx.ms.Atoms
        txt = ("x\n\n2 atoms\n0 bonds\n0 angles\n0 dihedrals\n0 impropers\n\n2 atom types\n 0.0 10.0 xlo xhi\n 0.0 10.0 ylo yhi\n 0.0 10.0 zlo zhi\n"
               "\nMasses\n\n 1 %s\n 2 %s\n\nAtoms\n\n 1 1 1 0.0 1.0 1.0 1.0\n 2 1 2 0.0 2.0 2.0 2.0\n")
        a = Atoms.load_lmpdat(io.StringIO(txt % ('12.0107', '39.0983')))
        ctx.require('atomic masses give elements', list(a.atom_type_elements) == ['C', 'K'], detail=dict(got=list(a.atom_type_elements)))
        a = Atoms.load_lmpdat(io.StringIO(txt % ('12.0107', '13.3')))
        ctx.require('a non-atomic mass makes ALL types use their numbers', list(a.atom_type_elements) == ['1', '2'] and list(a.atom_type_labels) == ['1', '2'],
                    detail=dict(got=list(a.atom_type_elements)))
        a = Atoms.load_lmpdat(io.StringIO(txt % ('12.06', '39.19')), guess_atol=0.1)
        ctx.require('tolerance argument reaches the guess (0.1: 12.06 is C, 39.19 is K)', list(a.atom_type_elements) == ['C', 'K'])
        masses = ctx.ms.get('mofun.atomic_masses').ATOMIC_MASSES
        els12 = ['C', 'H', 'O', 'N', 'S', 'K', 'Ni', 'Zr', 'Cu', 'Zn', 'F', 'Cl']
        big = ("x\n\n12 atoms\n0 bonds\n0 angles\n0 dihedrals\n0 impropers\n\n12 atom types\n 0.0 10.0 xlo xhi\n 0.0 10.0 ylo yhi\n 0.0 10.0 zlo zhi\n\nMasses\n\n"
               + ''.join(' %d %.4f\n' % (i + 1, masses[e]) for i, e in enumerate(els12)) + "\nAtoms\n\n"
               + ''.join(' %d 1 %d 0.0 %d.0 1.0 1.0\n' % (i + 1, i + 1, i) for i in range(12)))
        a12 = Atoms.load_lmpdat(io.StringIO(big))
        ctx.require('more than nine atom types keep their order (type k has the k-th mass and element)', list(a12.atom_type_elements) == els12 and list(a12.elements) == els12,
                    detail=dict(got=list(a12.atom_type_elements)))
        a = Atoms.load_lmpdat(io.StringIO(txt % ('12.06', '39.19')), guess_atol=0.03)
        ctx.require('tolerance argument reaches the guess (0.03: fallback)', list(a.atom_type_elements) == ['1', '2'])
        # an undefined mass ("nan", as some tools write it) is within tolerance of no element: no element is invented for it
        H = ctx.ms.helpers
        for bad_mass, bad_tol in ((float('nan'), 0.1), (12.0107, float('nan')), (float('inf'), 0.1)):
            try:
                got = H.guess_elements_from_masses([12.0107, bad_mass], max_delta=bad_tol)
            except Exception:
                got = None
            ctx.require('a mass / tolerance that is not a number matches no element (the guess raises)', got is None, detail=dict(mass=str(bad_mass), tol=str(bad_tol), got=got))
        a = Atoms.load_lmpdat(io.StringIO(txt % ('12.0107', 'nan')))
        ctx.require('a Masses entry that is not a number makes ALL types use their numbers', list(a.atom_type_elements) == ['1', '2'] and list(a.atom_type_labels) == ['1', '2'],
                    detail=dict(got=list(a.atom_type_elements)))


SELFTESTS = [
    dict(name='one-sided-first-hit', quick=True,
         mutate=[('mofun.helpers', "        sym, mass = min(ATOMIC_MASSES.items(), key=lambda kv: abs(elmass - kv[1]))\n        if abs(elmass - mass) < max_delta:\n            return sym\n",
                  "        for sym, mass in ATOMIC_MASSES.items():\n            if elmass - mass < max_delta:\n                return sym\n")],
         instance=dict(family='nearest', n=1, lo=38.5, hi=40.5)),
    dict(name='first-within-tolerance-not-nearest', quick=True,
         mutate=[('mofun.helpers', "        sym, mass = min(ATOMIC_MASSES.items(), key=lambda kv: abs(elmass - kv[1]))\n        if abs(elmass - mass) < max_delta:\n            return sym\n",
                  "        for sym, mass in ATOMIC_MASSES.items():\n            if abs(elmass - mass) < max_delta:\n                return sym\n")],
         instance=dict(family='nearest', n=1, lo=58, hi=59.5)),
]
OPTS_TIER = {}
