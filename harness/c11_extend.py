"""C11 - extending a structure appends atoms and re-targets terms correctly.
Runs the real Atoms.extend / extend_types / _extend_extra_fields / find_existing_topo.  Symbolic: self's term end
points and type ids, all per-atom data of both structures, the identity map (a partial injection other->self whose
values are symbolic), other's type ids.  Enumerated: other's term topologies (they are hashed by the code anyway),
extra-column label sets, table presence, default / explicit offsets, repeated extension with the same fragment."""
from harness.common import *
from symnp import core

PROPERTY = 'C11'
LEVEL = 'model_checking'
FUNCTIONS = ['mofun.atoms.Atoms.extend', 'mofun.atoms.Atoms.extend_types', 'mofun.atoms.Atoms._extend_extra_fields',
             'mofun.atoms.Atoms.extend.find_existing_topo', 'mofun.atoms.Atoms.num_*_types',
             'mofun.atoms.Atoms.assert_arrays_are_consistent_sizes']
BOUNDS = {'quick': 'self <=4 atoms with <=2 terms of a kind (symbolic end points), other <=3 atoms with <=2 terms of a '
                   'kind (listed topologies), identity map any partial injection with symbolic targets, <=2 extra columns',
          'thorough': 'as quick plus two kinds at once, 2x2 term combinations and three-step repeated extension'}
OUTSIDE = ['larger structures', 'incompatible tables (one side has terms of a kind without a coefficient table while '
           'the other defines one): excluded by the property', 'other with symbolic term end points (the code hashes them)']
ASSUMPTIONS = ['identity map is injective with targets in [0, len(self))', 'term end points in range',
               'type tables hold pairwise distinct texts so that "resolves to the same text" is checkable by identity']
STUBS = []

O_TOPO = {
    'bond': {2: [[(0, 1)], [(1, 0)]], 3: [[(0, 1), (1, 2)], [(2, 0)], [(1, 2), (2, 1)]],
             11: [[(7, 8), (10, 9), (3, 10), (8, 7)]], 36: [[(20, 21), (35, 31), (5, 33), (32, 2)]], 40: [[(0, 39), (31, 32), (33, 7)]]},
    'angle': {3: [[(0, 1, 2)], [(2, 0, 1), (1, 2, 0)]]},
    'dihedral': {3: [[(0, 1, 2, 0)]], 4: [[(0, 1, 2, 3)], [(3, 2, 1, 0), (0, 2, 1, 3)]]},
    'improper': {4: [[(1, 0, 2, 3)]], 3: [[(2, 1, 0, 1)]]},
}


def instances(tier, seed):
    out = []
    big = tier == 'thorough'

    def add(name, **kw):
        kw.setdefault('family', 'extend')
        out.append(dict(name=name, **kw))
    # one kind at a time, symbolic map, default type merging, both with tables
    add("ext:bond:S2xO1:map", Ns=3, No=2, kind='bond', S=2, topo=0, tables='both', mode='default', cost=20)
    add("ext:bond:S1xO2:map", Ns=3, No=3, kind='bond', S=1, topo=0, tables='both', mode='default', cost=30)
    add("ext:bond:S2xO1rev:offsets", Ns=3, No=2, kind='bond', S=2, topo=1, tables='both', mode='offsets', cost=20)
    add("ext:angle:S2xO1:map", Ns=3, No=3, kind='angle', S=2, topo=0, tables='both', mode='default', cost=30)
    add("ext:dihedral:S1xO1:map", Ns=4, No=3, kind='dihedral', S=1, topo=0, tables='both', mode='default', cost=30)
    add("ext:improper:S1xO1:map", Ns=3, No=3, kind='improper', S=1, topo=0, tables='both', mode='default', cost=20, okind_n=3)
    # tables: neither side / only one side has terms
    add("ext:bond:no-tables", Ns=3, No=2, kind='bond', S=1, topo=0, tables='neither', mode='default', cost=5)
    add("ext:bond:self-emptied-kind", Ns=3, No=2, kind='bond', S=0, topo=0, tables='both', mode='default', cost=3)
    add("ext:bond:other-has-no-table-no-terms", Ns=3, No=2, kind='bond', S=2, topo=None, tables='self', mode='default', cost=3)
    add("ext:bond:no-pair-coeff-tables", Ns=3, No=2, kind='bond', S=1, topo=0, tables='both', mode='default', no_pair=True, cost=10)
    add("ext:bond:self-has-pair-coeffs-other-not", Ns=3, No=2, kind='bond', S=1, topo=0, tables='both', mode='default', no_pair='other', cost=10)
    # extra columns
    for xi, (xs, xo) in enumerate([(['a', 'b'], ['b', 'c']), (['a', 'b'], ['b', 'a']), ([], ['c']), (['a'], [])]):
        add(f"ext:bond:extra{xi}", Ns=2, No=2, kind='bond', S=1, topo=0, tables='both', mode='default',
            extra_s=xs, extra_o=xo, cost=4)
    # extra columns held as numpy fixed-width strings (as the constructor and the CIF reader build them), longer values arriving
    add("ext:bond:extra-fixed-width-same-labels", Ns=2, No=2, kind='bond', S=1, topo=0, tables='both', mode='default', extra_s=['a', 'b'], extra_o=['a', 'b'],
        fixed_width=True, cost=4)
    add("ext:bond:extra-fixed-width-subset-labels", Ns=2, No=2, kind='bond', S=1, topo=0, tables='both', mode='default', extra_s=['a', 'b'], extra_o=['b'],
        fixed_width=True, cost=4)
    # repeated extension with the same fragment (as replace does): extend_types once, extend twice
    add("ext:bond:twice", Ns=3, No=2, kind='bond', S=1, topo=0, tables='both', mode='twice', cost=60)
    add("ext:bond:twice-same-map-object", Ns=3, No=2, kind='bond', S=1, topo=0, tables='both', mode='twice-same-map', cost=30)
    # a long fragment most of whose leading atoms are declared identical to existing ones: the appended atoms are 7..10 of 11 (and 20..35
    # of 36) - still "in order" (concrete shape and map, all per-atom data symbolic: one path)
    add("ext:bond:long-fragment:11-atoms-7-mapped", Ns=8, No=11, kind='bond', S=1, topo=0, tables='both', mode='bigmap', nmapped=7, cost=10)
    add("ext:bond:long-fragment:36-atoms-20-mapped", Ns=21, No=36, kind='bond', S=1, topo=0, tables='both', mode='bigmap', nmapped=20, cost=20)
    add("ext:bond:long-fragment:40-atoms-none-mapped", Ns=2, No=40, kind='bond', S=1, topo=0, tables='both', mode='bigmap', nmapped=0, cost=20)
    # the same fragment OBJECT extended twice with default type merging, re-parameterised in between (new labels, masses, coefficient
    # texts, one more coefficient row): the second call must bring the fragment's tables as they are at the time of that call
    add("ext:bond:twice-default-reparameterised", Ns=3, No=2, kind='bond', S=1, topo=0, tables='both', mode='twice-reparam', cost=60)
    add("ext:bond:empty-self:fragment-object-reused-and-edited-in-place", Ns=0, No=2, kind='bond', S=0, topo=0, tables='both', mode='empty-self-fragment-reused', cost=5)
    add("ext:bond:map-filled-in-descending-key-order", Ns=3, No=3, kind='bond', S=1, topo=0, tables='both', mode='default', map_order='descending', extra_s=['xa'], extra_o=['xa'], cost=60)
    add("ext:angle:map-later-atom", Ns=3, No=3, kind='angle', S=1, topo=1, tables='both', mode='default', cost=60)
    if big:
        add("ext:bond:S2xO2:map", Ns=4, No=3, kind='bond', S=2, topo=0, tables='both', mode='default', cost=600)
        add("ext:bond:S2xO2b:map", Ns=3, No=3, kind='bond', S=2, topo=2, tables='both', mode='default', cost=300)
        add("ext:angle:S1xO2:map", Ns=3, No=3, kind='angle', S=1, topo=1, tables='both', mode='default', cost=200)
        add("ext:dihedral:S1xO2:map", Ns=4, No=4, kind='dihedral', S=1, topo=1, tables='both', mode='default', cost=600, okind_n=4)
        add("ext:improper:S2xO1:map", Ns=4, No=4, kind='improper', S=2, topo=0, tables='both', mode='default', cost=300, okind_n=4)
        add("ext:bond+angle", Ns=3, No=3, kind='bond', S=1, topo=0, tables='both', mode='default', kind2='angle', cost=300)
        add("ext:angle:offsets-rev", Ns=3, No=3, kind='angle', S=2, topo=1, tables='both', mode='offsets', cost=300)
        add("ext:bond:twice:N4", Ns=4, No=2, kind='bond', S=2, topo=0, tables='both', mode='twice', cost=600)
    return out


def build_map(ctx, No, Ns, tag=''):
    """symbolic partial injection other->self: dict with concrete keys and symbolic values"""
    m = {}
    vals = []
    for oi in range(No):
        v = ctx.int(f"map{tag}{oi}", -1, Ns - 1)
        if v == -1:            # forks: mapped or not
            continue
        for w in vals:
            ctx.assume(v != w)
        vals.append(v)
        m[oi] = v
    return m


def body(ctx, p):
    Ns, No, kind = p['Ns'], p['No'], p['kind']
    tables = p['tables']
    rows_s = {kind: 2} if tables in ('both', 'self') else {}
    rows_o = {kind: 2} if tables in ('both',) else {}
    terms_s = {kind: p['S']} if p['S'] else {}
    xs = {'atom': p.get('extra_s', []), kind: p.get('extra_s', [])} if 'extra_s' in p else None
    xo = {'atom': p.get('extra_o', []), kind: p.get('extra_o', [])} if 'extra_o' in p else None
    if p.get('kind2'):
        rows_s[p['kind2']] = 2
        rows_o[p['kind2']] = 2
        terms_s[p['kind2']] = 1
    a, sp = build_state(ctx, 's', Ns, terms=terms_s, coeff_rows=rows_s, atom_rows=3 if p.get('no_pair') else 2, extra=xs, pair_coeffs=(p.get('no_pair') is not True),
                        fixed_width_extra=bool(p.get('fixed_width')))
    o, so = build_state(ctx, 'o' + ('ther-long-prefix' if p.get('fixed_width') else ''), No, terms={}, coeff_rows=rows_o, atom_rows=2, extra=xo,
                        pair_coeffs=not p.get('no_pair'), fixed_width_extra=bool(p.get('fixed_width')))
    # other's terms: concrete topology, symbolic type ids
    okinds = [kind] + ([p['kind2']] if p.get('kind2') else [])
    for k in okinds:
        if p['topo'] is None:
            continue
        n_at = p.get('okind_n', No) if k == kind else No
        topo = O_TOPO[k][n_at][p['topo'] if k == kind else 0]
        hi = 1 if rows_o.get(k) else 1
        tys = [ctx.int(f"o{k[0]}{k[1]}t{j}", 0, hi) for j in range(len(topo))]
        so.terms[k] = [(list(t), tys[j]) for j, t in enumerate(topo)]
        setattr(o, k + 's', np.array(topo, dtype=int))
        setattr(o, k + '_types', np.array(tys, dtype=object if ctx.sym else int))
        lab = so.extra_labels[k]
        so.extra[k] = [[f"ox{k[0]}{k[1]}{j}.{c}" for c in range(len(lab))] for j in range(len(topo))]
        setattr(o, f'extra_{k}_fields', (np.array(so.extra[k], dtype=object).reshape((len(topo), len(lab)))
                                         if lab else np.full((len(topo), 0), '.', dtype=object)))
    o_before = spec_from_state(o)
    if p['mode'] == 'default':
        m = build_map(ctx, No, Ns)
        if p.get('map_order') == 'descending':
            # the caller filled its dict starting from the LAST fragment atom: a map is a map whatever its insertion order
            a.extend(o, structure_index_map=dict(reversed(list(m.items()))))
        else:
            a.extend(o, structure_index_map=dict(m))
        check_extend(ctx, sp, so, m, a, shared_offsets=None)
    elif p['mode'] == 'offsets':
        # ids supplied as already shared: the other's ids are used as they are (+ the given offsets)
        offs = (0, 0, 0, 0, 0)
        # with shared ids the other's types must be valid ids of self's tables
        m = build_map(ctx, No, Ns)
        a.extend(o, offsets=offs, structure_index_map=dict(m))
        check_extend(ctx, sp, so, m, a, shared_offsets=offs)
    elif p['mode'] == 'twice':
        offs = a.extend_types(o)
        sp1 = spec_from_state(a)
        m1 = build_map(ctx, No, Ns, 'a')
        a.extend(o, offsets=offs, structure_index_map=dict(m1))
        check_extend(ctx, sp1, so, m1, a, shared_offsets=offs, types_already_merged=(sp, so), label='1st: ')
        sp2 = spec_from_state(a)
        m2 = build_map(ctx, No, sp2.N, 'b')
        a.extend(o, offsets=offs, structure_index_map=dict(m2))
        check_extend(ctx, sp2, so, m2, a, shared_offsets=offs, types_already_merged=(sp, so), label='2nd: ')
    elif p['mode'] == 'bigmap':
        # targets: distinct existing atoms, highest first (so mapped atoms are not in the fragment's own order)
        m = {oi: Ns - 1 - oi for oi in range(p['nmapped'])}
        a.extend(o, structure_index_map=dict(m))
        check_extend(ctx, sp, so, m, a, shared_offsets=None)
    elif p['mode'] == 'twice-reparam':
        m1 = build_map(ctx, No, Ns, 'a')
        a.extend(o, structure_index_map=dict(m1))
        check_extend(ctx, sp, so, m1, a, shared_offsets=None, label='1st: ')
        # re-parameterise the SAME object
        o.atom_type_labels = [str(x) + "_v2" for x in o.atom_type_labels]
        o.atom_type_elements = [str(x) + "b" for x in o.atom_type_elements]
        o.atom_type_masses = np.array([float(x) + 0.25 for x in o.atom_type_masses])
        if len(o.pair_coeffs):
            o.pair_coeffs = np.array([str(x) + " v2" for x in o.pair_coeffs])
        setattr(o, COEFF_ATTR[kind], np.array([str(x) + " v2" for x in getattr(o, COEFF_ATTR[kind])] + [f"o{kind}extra 9.0 9.0"]))
        so2 = spec_from_state(o)
        o_before = so2
        sp2 = spec_from_state(a)
        m2 = build_map(ctx, No, sp2.N, 'b')
        a.extend(o, structure_index_map=dict(m2))
        check_extend(ctx, sp2, so2, m2, a, shared_offsets=None, label='2nd (fragment re-parameterised): ')
    elif p['mode'] == 'twice-same-map':
        # the caller keeps ONE dict and passes it to two calls (grafting the same fragment twice onto the same atoms)
        offs = a.extend_types(o)
        sp1 = spec_from_state(a)
        m = build_map(ctx, No, Ns, 'a')
        keep = dict(m)
        a.extend(o, offsets=offs, structure_index_map=m)
        check_extend(ctx, sp1, so, keep, a, shared_offsets=offs, types_already_merged=(sp, so), label='1st: ')
        ctx.require("the caller's identity map is not modified", list(m.keys()) == list(keep.keys()) and all(m[k] is keep[k] or m[k] == keep[k] for k in keep if isinstance(keep[k], int)),
                    detail=dict(keys=list(m.keys())))
        sp2 = spec_from_state(a)
        a.extend(o, offsets=offs, structure_index_map=m)
        check_extend(ctx, sp2, so, keep, a, shared_offsets=offs, types_already_merged=(sp, so), label='2nd: ')
    elif p['mode'] == 'empty-self-fragment-reused':
        # the usual "place translated copies of ONE fragment object into an empty box" loop: what was appended must not follow later in-place
        # edits of the fragment object (translate, regroup, rescale charges)
        a = ctx.ms.Atoms()
        sp0 = spec_from_state(a)
        a.extend(o)
        check_extend(ctx, sp0, so, {}, a, shared_offsets=None, label='1st: ')
        snap = spec_from_state(a)
        o.translate((1.5, -0.25, 3.0))
        o.groups[:] = 7
        o.charges *= 2
        o.charges += 1
        now = spec_from_state(a)
        with core.nosimplify():
            ctx.require('atoms appended to an empty structure do not follow later in-place edits of the fragment object',
                        AND(now.N == snap.N, *[EQ(now.pos[i][c], snap.pos[i][c]) for i in range(min(now.N, snap.N)) for c in range(3)],
                            *[EQ(x, y) for x, y in zip(now.charges + now.groups, snap.charges + snap.groups)]))
        so2 = spec_from_state(o)
        o_before = so2
        sp2 = spec_from_state(a)
        a.extend(o)
        check_extend(ctx, sp2, so2, {}, a, shared_offsets=None, label='2nd (fragment moved): ')
    # the other structure is not modified
    oa = spec_from_state(o)
    with core.nosimplify():
        same = AND(*[EQ(x, y) for x, y in zip(oa.types, o_before.types)],
                   *[EQ(x, y) for k, _ in KINDS for (e1, t1), (e2, t2) in zip(oa.terms[k], o_before.terms[k])
                     for x, y in list(zip(e1, e2)) + [(t1, t2)]])
    ctx.require('other structure unmodified', AND(same, oa.N == o_before.N, oa.extra == o_before.extra,
                                                  oa.tables == o_before.tables))


def check_extend(ctx, sp, so, m, a, shared_offsets=None, types_already_merged=None, label=''):
    with core.nosimplify():
        _check_extend(ctx, sp, so, m, a, shared_offsets, types_already_merged, label)


def _check_extend(ctx, sp, so, m, a, shared_offsets, types_already_merged, label):
    """sp: self before; so: other; m: identity map {other idx: self idx (symbolic)}; a: self after"""
    Ns, No = sp.N, so.N
    added = [i for i in range(No) if i not in m]
    nexp = Ns + len(added)
    if not ctx.require(label + 'atom count', len(a.positions) == nexp and lengths_consistent(a),
                       detail=dict(n=len(a.positions), want=nexp)):
        return
    if len(a.positions) != nexp or not lengths_consistent(a):
        return
    ctx.observe(label + 'n_atoms', len(a.positions))
    res = spec_from_state(a)
    T = res.tables['atom']
    # ---- type tables
    if shared_offsets is None:
        for key in ('elements', 'masses', 'labels'):
            ctx.require(label + f'atom type table {key} = self rows then other rows',
                        T[key] == sp.tables['atom'][key] + so.tables['atom'][key], detail=dict(got=T[key]))
        if sp.tables['atom']['pair'] and so.tables['atom']['pair']:
            ctx.require(label + 'pair coeffs table = self rows then other rows',
                        T['pair'] == sp.tables['atom']['pair'] + so.tables['atom']['pair'])
        for kind, _ in KINDS:
            ctx.require(label + f'{kind} coefficient table = self rows then other rows',
                        res.tables[kind] == sp.tables[kind] + so.tables[kind], detail=dict(got=res.tables[kind]))
    else:
        ctx.require(label + 'tables untouched when offsets are supplied', res.tables == sp.tables)

    def atom_type_ok(rt, ot):
        if shared_offsets is not None:
            return EQ(rt, ot + shared_offsets[0])
        return AND(resolves_to(T['elements'], rt, so.tables['atom']['elements'], ot),
                   resolves_to(T['labels'], rt, so.tables['atom']['labels'], ot))

    # ---- atoms of self
    lab_after = res.extra_labels['atom']
    ctx.require(label + 'extra atom labels merged in order', lab_after == sp.extra_labels['atom'] +
                [l for l in so.extra_labels['atom'] if l not in sp.extra_labels['atom']])
    for i in range(Ns):
        mapped_from = [(oi, si) for oi, si in m.items()]
        is_target = OR(*[EQ(si, i) for _, si in mapped_from])
        keep = AND(EQ(res.charges[i], sp.charges[i]), EQ(res.groups[i], sp.groups[i]),
                   *[EQ(res.pos[i][c], sp.pos[i][c]) for c in range(3)])
        ctx.require(label + 'existing atom keeps position/charge/group', keep, detail=dict(atom=i))
        row_keep = res.extra['atom'][i] == merged_row(lab_after, sp.extra_labels['atom'], sp.extra['atom'][i])
        ctx.require(label + 'unmapped existing atom keeps type and extra fields',
                    IMPLIES(NOT(is_target), AND(EQ(res.types[i], sp.types[i]), row_keep)), detail=dict(atom=i))
        for oi, si in mapped_from:
            row_adopt = (not lab_after) or res.extra['atom'][i] == merged_row(lab_after, so.extra_labels['atom'], so.extra['atom'][oi])
            ctx.require(label + "identified atom adopts the other's type and extra fields",
                        IMPLIES(EQ(si, i), AND(atom_type_ok(res.types[i], so.types[oi]), row_adopt)),
                        detail=dict(atom=i, other=oi))
    # ---- appended atoms, in order
    for r, oi in enumerate(added):
        i = Ns + r
        ok = AND(EQ(res.charges[i], so.charges[oi]), EQ(res.groups[i], so.groups[oi]),
                 *[EQ(res.pos[i][c], so.pos[oi][c]) for c in range(3)], atom_type_ok(res.types[i], so.types[oi]),
                 res.extra['atom'][i] == merged_row(lab_after, so.extra_labels['atom'], so.extra['atom'][oi]))
        ctx.require(label + 'appended atom carries the other atom\'s data, in order', ok, detail=dict(row=i, other=oi))

    def target(x):
        """self index of other's atom x (x concrete here)"""
        if x in m:
            return m[x]
        return Ns + added.index(x)

    # ---- terms
    for kn, (kind, ar) in enumerate(KINDS):
        st = sp.terms[kind]
        ot = so.terms[kind]
        rows = res.terms[kind]
        labk = res.extra_labels[kind]
        new = [[target(x) for x in ends] for ends, _ in ot]
        if not ot:
            same = len(rows) == len(st) and AND(*[EQ(x, y) for (e1, t1), (e2, t2) in zip(rows, st)
                                                   for x, y in list(zip(e1, e2)) + [(t1, t2)]])
            ctx.require(label + f'{kind}s untouched when the other has none', same)
            continue
        sup = []
        for ends, _ in st:
            fw = OR(*[AND(*[EQ(ends[c], n[c]) for c in range(ar)]) for n in new])
            bw = OR(*[AND(*[EQ(ends[c], n[ar - 1 - c]) for c in range(ar)]) for n in new])
            sup.append(OR(fw, bw))
        keepf = [NOT(s) for s in sup]
        nkeep = COUNT(keepf)
        ctx.require(label + f'{kind} count = surviving existing + all of the other\'s',
                    EQ(nkeep + len(ot), len(rows)), detail=dict(kind=kind, n=len(rows)))
        ctx.observe(label + f'n_{kind}', len(rows))
        pref = [COUNT(keepf[:j]) for j in range(len(st))]
        for r in range(len(rows)):
            for j, (ends, ty) in enumerate(st):
                isr = AND(keepf[j], EQ(pref[j], r))
                xrow = res.extra[kind][r] == merged_row(labk, sp.extra_labels[kind], sp.extra[kind][j])
                ctx.require(label + f'existing {kind} on other atoms is untouched (atoms, type, extra fields, order)',
                            IMPLIES(isr, AND(*[EQ(rows[r][0][c], ends[c]) for c in range(ar)], EQ(rows[r][1], ty), xrow)),
                            detail=dict(kind=kind, row=r, orig=j))
            for j2, (ends, ty) in enumerate(ot):
                isr = EQ(nkeep + j2, r)
                if shared_offsets is not None:
                    tyok = EQ(rows[r][1], ty + shared_offsets[kn + 1])
                    if types_already_merged is not None and types_already_merged[1].tables[kind]:
                        tyok = AND(tyok, resolves_to(res.tables[kind], rows[r][1], types_already_merged[1].tables[kind], ty))
                elif so.tables[kind]:
                    tyok = resolves_to(res.tables[kind], rows[r][1], so.tables[kind], ty)
                else:
                    # no coefficient texts on either side: new ids must not collide with ids in use
                    tyok = AND(*[rows[r][1] > t for _, t in st])
                xrow = res.extra[kind][r] == merged_row(labk, so.extra_labels[kind], so.extra[kind][j2])
                ctx.require(label + f"other's {kind} added once between the corresponding atoms with its own coefficients",
                            IMPLIES(isr, AND(*[EQ(rows[r][0][c], new[j2][c]) for c in range(ar)], tyok, xrow)),
                            detail=dict(kind=kind, row=r, other=j2))


SELFTESTS = [
    dict(name='no-reverse-override', quick=True,
         mutate=[('mofun.atoms', "return forward_dir + reverse_dir", "return forward_dir")],
         instance=dict(family='extend', Ns=3, No=2, kind='bond', S=2, topo=1, tables='both', mode='default')),
    dict(name='types-not-offset',
         mutate=[('mofun.atoms', "self.bond_types = np.append(self.bond_types, other.bond_types + offsets[1])",
                  "self.bond_types = np.append(self.bond_types, other.bond_types)")],
         instance=dict(family='extend', Ns=3, No=2, kind='bond', S=1, topo=0, tables='both', mode='default')),
    dict(name='emptied-kind-offset-zero', quick=True,
         mutate=[('mofun.atoms', "        if len(self.bond_type_coeffs) > 0 or len(self.bond_types) == 0:\n            return len(self.bond_type_coeffs)\n",
                  "        if len(self.bond_types) == 0:\n            return 0\n        if len(self.bond_type_coeffs) > 0:\n            return len(self.bond_type_coeffs)\n")],
         instance=dict(family='extend', Ns=3, No=2, kind='bond', S=0, topo=0, tables='both', mode='default')),
]
