"""end-to-end replacement runs (real find + real replace, no stub) under a symbolic translation: shared by C05 and C08"""
import numpy as np
from scipy.spatial.transform import Rotation as SR

from harness.find_common import *
from harness.find_runs import STRUCTS, OCCURRENCE_KINDS, A
from symnp import core
from symnp.core import AND, OR, NOT, IMPLIES, EQ

# replacement patterns, written in the frame of the search motif (same coordinates for common atoms)
REPL = {
    'pair->CFO': ('pair', ['C', 'F', 'O'], [(0, 0, 0), (1.35, 0, 0), (1.9, 1.1, 0.3)]),
    'pair->FO': ('pair', ['F', 'O'], [(1.35, 0.2, 0), (-0.5, 1.1, 0.3)]),
    'pair->F-off-anchor': ('pair', ['F'], [(1.35, 0.2, 0)]),          # a one-atom replacement that does NOT sit on the first search atom
    'chiral4->S-off-anchor': ('chiral4', ['S'], [(0.7, 0.8, 0.9)]),
    'pair->CH-moved-0.05A': ('pair', ['C', 'H'], [(0, 0, 0), (1.14, 0, 0)]),      # H 0.05 A further out: not a common atom, re-inserted at the new distance
    'pair->pair': ('pair', ['C', 'H'], [(0, 0, 0), (1.09, 0, 0)]),
    'chiral4->CHSP': ('chiral4', ['C', 'H', 'S', 'P'], [(0, 0, 0), (1.0, 0, 0), (0.3, 1.5, 0.2), (-0.4, -0.2, 1.8)]),
    'chiral4->chiral4': ('chiral4', ['C', 'H', 'N', 'O'], [(0, 0, 0), (1.0, 0, 0), (0, 1.2, 0), (0, 0, 1.4)]),
    'chiral4->big': ('chiral4', ['C', 'F', 'F', 'S', 'P', 'N'], [(0, 0, 0), (1.3, 0.1, 0), (-0.2, 1.4, 0.1), (0.1, -0.1, 1.9), (2.5, 2.5, 2.5), (0, 1.2, 0)]),
    'planar3->CNF': ('planar3', ['C', 'N', 'F'], [(0, 0, 0), (1.3, 0, 0), (-0.6, 1.3, 0.9)]),
    'planar3->planar3B': ('planar3', ['Si', 'N', 'O'], [(0, 0, 0), (1.23, 0, 0), (-0.376, 1.034, 0)]),
    'planar3B->planar3': ('planar3B', ['C', 'N', 'O'], [(0, 0, 0), (1.3, 0, 0), (-0.4, 1.1, 0)]),
    'collinear3->OCF': ('collinear3', ['O', 'C', 'F'], [(0, 0, 0), (1.2, 0, 0), (2.9, 0, 0)]),
    'collinear3->OCSN': ('collinear3', ['O', 'C', 'S', 'N'], [(0, 0, 0), (1.2, 0, 0), (2.7, 0, 0), (1.2, 1.0, 0.5)]),
    'pseudo6->plusS': ('pseudo6', ['C', 'H', 'H', 'F', 'N', 'O', 'S'], [(0, 0, 0), (1.1, 0, 0), (-1.1, 0, 0), (0, 1.3, 0), (0, -0.5, 1.2), (0, -0.5, -1.2), (0.8, 0.9, 1.5)]),
    'pseudoaxis5->plusS': ('pseudoaxis5', ['C', 'H', 'H', 'N', 'O', 'S'], [(0, 0, 0), (1.5, 0, 0), (-1.5, 0, 0), (0, 1.2, 0.3), (0, -1.2, 0.3), (0.9, 0.7, 1.6)]),
    'chiralflat4->F': ('chiralflat4', ['C', 'N', 'O', 'F'], [(0.0, 1.5, 0.0), (2.0, 0.0, 0.0), (-2.0, 0.0, 0.0), (0.3, 0.4, 0.6)]),
    'chiralflat4F->H': ('chiralflat4F', ['C', 'N', 'O', 'H'], [(0.0, 1.5, 0.0), (2.0, 0.0, 0.0), (-2.0, 0.0, 0.0), (0.3, 0.4, 0.6)]),
    'single->F': ('single', ['F'], [(0, 0, 0)]),
    'single->FCl-long': ('single', ['F', 'Cl'], [(0, 0, 0), (14.5, 0.4, -8.2)]),
    'singleF->H': ('singleF', ['H'], [(0, 0, 0)]),
    'pair->CF': ('pair', ['C', 'F'], [(0, 0, 0), (1.35, 0, 0)]),
    'pairCF->pair': ('pairCF', ['C', 'H'], [(0, 0, 0), (1.09, 0, 0)]),
    'chiralCHSP->chiral4': ('chiralCHSP', ['C', 'H', 'N', 'O'], [(0, 0, 0), (1.0, 0, 0), (0, 1.2, 0), (0, 0, 1.4)]),
    'weak-chiral6->weak-chiral6': ('weak-chiral6', ['C', 'N', 'O', 'F', 'S', 'P'], [(0, 0, 0), (1.5, 0, 0), (0.2, 1.6, 0), (-1.4, 0.3, 0), (1.1, -1.3, 0), (-0.6, -1.2, 0.07)]),
    'planar3->planar3': ('planar3', ['C', 'N', 'O'], [(0, 0, 0), (1.3, 0, 0), (-0.4, 1.1, 0)]),
    'collinear3->collinear3': ('collinear3', ['O', 'C', 'S'], [(0, 0, 0), (1.2, 0, 0), (2.7, 0, 0)]),
    'ch2-sym3->ch2-sym3': ('ch2-sym3', ['C', 'H', 'H'], [(0, 0, 0), (0.9, 0.6, 0), (-0.9, 0.6, 0)]),
    'linear-sym3->linear-sym3': ('linear-sym3', ['O', 'C', 'O'], [(-1.16, 0, 0), (0, 0, 0), (1.16, 0, 0)]),
    'single->H': ('single', ['H'], [(0, 0, 0)]),
    'linear-sym3->OCS': ('linear-sym3', ['O', 'C', 'S'], [(-1.16, 0, 0), (0, 0, 0), (1.5, 0, 0)]),
    'ch2-sym3->CFF': ('ch2-sym3', ['C', 'F', 'F'], [(0, 0, 0), (1.0, 0.7, 0), (-1.0, 0.7, 0)]),
    'ch4->CF4': ('ch4', ['C', 'F', 'F', 'F', 'F'], [(0, 0, 0), (0.8, 0.8, 0.8), (-0.8, -0.8, 0.8), (-0.8, 0.8, -0.8), (0.8, -0.8, -0.8)]),
    'trig-sym4->BCl3': ('trig-sym4', ['B', 'Cl', 'Cl', 'Cl'], [(0, 0, 0), (1.7, 0, 0), (-0.85, 1.4722, 0), (-0.85, -1.4722, 0)]),
}


def kabsch_dev(P, Q):
    """max per-atom distance after the best PROPER rigid superposition of point set P onto Q"""
    P = np.array(P, dtype=float)
    Q = np.array(Q, dtype=float)
    if len(P) == 1:
        return 0.0
    pc, qc = P.mean(axis=0), Q.mean(axis=0)
    H = (P - pc).T @ (Q - qc)
    U, S, Vt = np.linalg.svd(H)
    d = np.sign(np.linalg.det(Vt.T @ U.T))
    D = np.diag([1, 1, d if d != 0 else 1])
    Rm = Vt.T @ D @ U.T
    return float(np.max(np.linalg.norm((Rm @ (P - pc).T).T + qc - Q, axis=1)))


def nearest_image(d, cell):
    """d + lattice vector of smallest norm (d concrete 3-vector)"""
    cell = np.array(cell, dtype=float)
    f = d.dot(np.linalg.inv(cell))
    best = None
    base = np.round(f)
    for i in (-1, 0, 1):
        for j in (-1, 0, 1):
            for k in (-1, 0, 1):
                v = (f - base + np.array([i, j, k])).dot(cell)
                if best is None or np.linalg.norm(v) < np.linalg.norm(best):
                    best = v
    return best


def run_e2e(ctx, p):
    cellname, clusters, motif = STRUCTS[p['struct']]
    cell = CELLS[cellname]
    els, pos, groups = build_clusters(clusters)
    shift = [ctx.real(f"t{k}", *(p.get('ranges') or {}).get(str(k), (0, 1))) if k in p['axes'] else float(p.get('other', (0, 0, 0))[k]) for k in range(3)]
    rows = place(ctx, pos, cell, shift)
    st, order = make_structure(ctx, els, rows, cell)
    if p.get('charges'):
        st.charges = np.arange(len(els)) * 0.1 - 0.3
        st.groups = np.arange(len(els)) % 3
    if p.get('st_terms'):
        n = len(els)
        st.bonds = np.array([(i, i + 1) for i in range(n - 1)])
        st.bond_types = np.array([i % 2 for i in range(n - 1)])
        st.extra_bond_fields = np.full((n - 1, 0), '.', dtype=object)
        st.angles = np.array([(i, i + 1, i + 2) for i in range(n - 2)])
        st.angle_types = np.array([0] * (n - 2))
        st.extra_angle_fields = np.full((n - 2, 0), '.', dtype=object)
        st.dihedrals = np.array([(i, i + 1, i + 2, i + 3) for i in range(0, n - 3, 2)])
        st.dihedral_types = np.array([0] * len(st.dihedrals))
        st.extra_dihedral_fields = np.full((len(st.dihedrals), 0), '.', dtype=object)
        st.impropers = np.array([(1, 0, 2, 3)])
        st.improper_types = np.array([0])
        st.extra_improper_fields = np.full((1, 0), '.', dtype=object)
    smotif, rel, rpos = REPL[p['repl']]
    assert smotif == motif, (smotif, motif)
    sel, spos = MOTIFS[motif]
    spos = np.array(spos, dtype=float)
    rpos = np.array(rpos, dtype=float)
    jt = None
    if p.get('joint_pose'):
        rj = pose(p['joint_pose'])
        spos, rpos = rj.apply(spos), rj.apply(rpos)
    if p.get('joint_translate') == 'sym':
        jt = [ctx.real(f"jt{c}", -20, 20) for c in range(3)]
    search = make_pattern(ctx, None, elements=sel, positions=spos, translate=jt)
    replace = make_pattern(ctx, None, elements=rel, positions=rpos, translate=jt)
    if p.get('pattern_cells'):
        # patterns read from files that carry their own box (a CIF with _cell_* tags, a LAMMPS data file): the patterns' cells mean nothing
        # for the structure they are inserted into
        replace.cell = np.array([[9.0, 0, 0], [0, 7.0, 0], [0, 0, 8.0]])
        search.cell = np.array([[30.0, 0, 0], [0, 30.0, 0], [0, 0, 30.0]])
    if p.get('search_type_offset'):
        # the search pattern was cut out of a larger object: it carries that object's type table (its own types come after two foreign rows)
        search.atom_type_elements = ['He', 'Ne'] + list(search.atom_type_elements)
        search.atom_type_labels = ['He', 'Ne'] + list(search.atom_type_labels)
        search.atom_type_masses = [4.0026, 20.18] + list(search.atom_type_masses)
        search.atom_types = np.array([int(t) + 2 for t in search.atom_types])
    if p.get('pat_charges'):
        # a pattern cut from another, slightly differently charged, occurrence: charges of atoms that stay in place must not be overwritten
        replace.charges = np.array([0.4 + 0.1 * k for k in range(len(rel))])
        search.charges = np.array([0.4 + 0.1 * k for k in range(len(sel))])
    if p.get('unused_type_row'):
        # the replacement pattern is a subset of a larger molecule: its type table has a trailing row that no atom uses
        replace.atom_type_elements = list(replace.atom_type_elements) + ['Cl']
        replace.atom_type_labels = list(replace.atom_type_labels) + ['Cl']
        replace.atom_type_masses = list(replace.atom_type_masses) + [35.453]
    if p.get('pattern_terms') and len(rel) >= 2:
        # a bond between the first two pattern atoms and, when there is a third atom, one from the first to the third (for most replacement
        # patterns here that is a bond between a retained and an inserted atom)
        pb = [(0, 1)] + ([(0, 2)] if len(rel) >= 3 else [])
        replace.bonds = np.array(pb)
        replace.bond_types = np.array(list(range(len(pb))))
        replace.bond_type_coeffs = np.array(['bp 1.0 2.0', 'bq 3.0 4.0'][:len(pb)])
        replace.extra_bond_fields = np.full((len(pb), 0), '.', dtype=object)
    kw = {}
    for h in ('axisp1_idx', 'axisp2_idx', 'opoint_idx'):
        if p.get(h) is not None:
            kw[h] = p[h]
    snap_pos = [list(r) for r in st.positions]
    pat_snap = ([list(r) for r in search.positions], [list(r) for r in replace.positions])
    if p.get('fraction') is not None:
        kw['replace_fraction'] = p['fraction']
    res, count = ctx.ms.mofun.replace_pattern_in_structure(st, search, replace, atol=A, return_num_matches=True,
                                                           replace_all=bool(p.get('replace_all')), **kw)
    occ = [g for kind, g in groups if kind in OCCURRENCE_KINDS]
    if p['struct'] == 'S6':
        occ = [[i] for i, e in enumerate(els) if e == 'H']
    return dict(st=st, res=res, count=count, occ=occ, els=els, cell=cell, search_el=sel, spos=np.array(MOTIFS[motif][1], dtype=float),
                rel=rel, rpos=np.array(REPL[p['repl']][2], dtype=float), snap_pos=snap_pos, search=search, replace=replace,
                groups=groups, pat_snap=pat_snap)


def check_patterns_untouched(ctx, R):
    with core.nosimplify():
        for nm, obj, snap in (('search', R['search'], R['pat_snap'][0]), ('replace', R['replace'], R['pat_snap'][1])):
            ctx.require(f'the {nm} pattern passed by the caller is left unmodified',
                        AND(len(obj.positions) == len(snap), *[EQ(obj.positions[i][c], snap[i][c]) for i in range(min(len(snap), len(obj.positions))) for c in range(3)]))


def shared_map(R, replace_all=False):
    sh = {}
    if replace_all:
        return sh
    for i, (e1, p1) in enumerate(zip(R['rel'], R['rpos'])):
        for j, (e2, p2) in enumerate(zip(R['search_el'], R['spos'])):
            if e1 == e2 and np.linalg.norm(p1 - p2) < 1e-5:
                sh[i] = j
                break
    return sh


def check_placement(ctx, p, R, bound=None):
    """C05 oracle.  Returns the final-index bookkeeping for further checks."""
    res, st, cell = R['res'], R['st'], np.array(R['cell'], dtype=float)
    occ = R['occ']
    N = len(R['els'])
    sh = shared_map(R, p.get('replace_all'))
    nS, nR = len(R['search_el']), len(R['rel'])
    kept_search = set(sh.values())
    n_ins_per = nR - len(sh)
    removed = sorted(i for g in occ for k, i in enumerate(g) if k not in kept_search or nR == 0)
    if p.get('symmetric'):
        removed = None
    want_n = N - len(occ) * (nS - len(sh) if nR else nS) + len(occ) * n_ins_per
    ctx.observe('count', int(R['count']))
    ctx.require('all planted occurrences are replaced', int(R['count']) == len(occ), detail=dict(count=int(R['count']), want=len(occ)))
    if not ctx.require('atom count', len(res.positions) == want_n, detail=dict(n=len(res.positions), want=want_n)):
        return None
    if len(res.positions) != want_n or int(R['count']) != len(occ):
        return None
    n_surv = want_n - len(occ) * n_ins_per
    inv = np.linalg.inv(cell)
    bound = bound if bound is not None else 1e-5
    els_res = list(res.elements)
    # every inserted atom inside the unit cell
    with core.nosimplify():
        for r in range(n_surv, want_n):
            fr = [sum(res.positions[r][c] * float(inv[c][k]) for c in range(3)) for k in range(3)]
            ctx.require('inserted atom lies inside the unit cell (fractional coordinates in [0,1])',
                        AND(*[AND(fr[k] >= -1e-9, fr[k] <= 1 + 1e-9) for k in range(3)]), detail=dict(row=r))
    # inserted atoms come in blocks of n_ins_per per replaced match (in some match order): identify each block's match by
    # rigid superposition of [search coords + replacement coords] onto [matched atoms + block atoms]
    ins_idx = [k for k in range(nR) if k not in sh]
    blocks = [list(range(n_surv + b * n_ins_per, n_surv + (b + 1) * n_ins_per)) for b in range(len(occ))] if n_ins_per else []
    used = set()
    ok_all = True
    worst = 0.0
    block_occ = []
    for b, blk in enumerate(blocks):
        if [els_res[r] for r in blk] != [R['rel'][k] for k in ins_idx]:
            ctx.fail('inserted atoms carry the replacement pattern elements in order', detail=dict(block=b))
            return None
        best = None
        for gi, g in enumerate(occ):
            if gi in used:
                continue
            anchor = st.positions[g[0]]
            Q = []
            try:
                for i in g:
                    Q.append(nearest_image(np.array([fl(st.positions[i][c] - anchor[c]) for c in range(3)]), cell))
                for r in blk:
                    Q.append(nearest_image(np.array([fl(res.positions[r][c] - anchor[c]) for c in range(3)]), cell))
            except core.Unsupported:
                ctx.fail('inserted position minus matched position is constant on the path region', detail=dict(block=b))
                return None
            if p.get('symmetric'):
                # symmetric search motif: the matched ordering is one of the equivalent ones -> try all orderings of g
                import itertools
                devs = []
                for perm in itertools.permutations(range(nS)):
                    if [R['search_el'][k] for k in perm] != list(R['search_el']):
                        continue
                    P = [R['spos'][k] for k in perm] + [R['rpos'][k] for k in ins_idx]
                    devs.append(kabsch_dev(P, Q))
                dev = min(devs)
            else:
                P = list(R['spos']) + [R['rpos'][k] for k in ins_idx]
                dev = kabsch_dev(P, Q)
            if best is None or dev < best[0]:
                best = (dev, gi)
        used.add(best[1])
        block_occ.append(best[1])
        worst = max(worst, best[0])
        ok_all = ok_all and best[0] <= bound
    ctx.require('matched + inserted atoms form a proper rigid image of search + replacement coordinates (mod lattice)', ok_all,
                detail=dict(max_dev=worst, bound=bound))
    if p.get('pattern_terms') and not p.get('symmetric') and removed is not None:
        # the replacement pattern's bond (its atoms 0 and 1) must join, for every replaced match, the retained / inserted atoms of THAT match
        surv = [i for i in range(N) if i not in set(removed)]
        fin = {i: r for r, i in enumerate(surv)}
        want = set()
        for b, gi in enumerate(block_occ):
            for pbond in [(0, 1)] + ([(0, 2)] if nR >= 3 else []):
                ends = []
                for k in pbond:
                    ends.append(fin[occ[gi][sh[k]]] if k in sh else blocks[b][ins_idx.index(k)])
                want.add(tuple(sorted(ends)))
        got = set(tuple(sorted(int(x) for x in t)) for t in res.bonds)
        ctx.require("the replacement pattern's bond joins the retained/inserted atoms of the same match", got == want, detail=dict(got=sorted(got), want=sorted(want)))
    return dict(n_surv=n_surv, sh=sh)


def check_bystanders(ctx, p, R):
    """atoms outside the matches keep everything; atoms common to both patterns stay where they were"""
    res, st = R['res'], R['st']
    occ = R['occ']
    sh = shared_map(R, p.get('replace_all'))
    nR = len(R['rel'])
    kept = set(sh.values()) if nR else set()
    if p.get('symmetric'):
        return
    removed = set(i for g in occ for k, i in enumerate(g) if k not in kept)
    surv = [i for i in range(len(R['els'])) if i not in removed]
    els_res = list(res.elements)
    with core.nosimplify():
        for r, i in enumerate(surv):
            ctx.require('surviving atom keeps position, element, charge, group and order',
                        AND(*[EQ(res.positions[r][c], R['snap_pos'][i][c]) for c in range(3)], els_res[r] == R['els'][i],
                            EQ(res.charges[r], st.charges[i]), EQ(res.groups[r], st.groups[i])), detail=dict(atom=i))


def replace_again(ctx, st2, repl_name, replace_all=False):
    """second replacement on the (symbolic) result of the first"""
    smotif, rel, rpos = REPL[repl_name]
    sel, spos = MOTIFS[smotif]
    search = make_pattern(ctx, None, elements=sel, positions=np.array(spos, dtype=float))
    replace = make_pattern(ctx, None, elements=rel, positions=np.array(rpos, dtype=float))
    return ctx.ms.mofun.replace_pattern_in_structure(st2, search, replace, atol=A, return_num_matches=True, replace_all=replace_all)


def same_sites(ctx, a_els, a_pos, b_els, b_pos, cell, tol=1e-5):
    """multiset equality of (element, position modulo lattice): greedy bijection on the shift-cancelled differences"""
    cell = np.array(cell, dtype=float)
    if len(a_els) != len(b_els):
        return False, 'count'
    free = list(range(len(b_els)))
    for i in range(len(a_els)):
        hit = None
        for j in free:
            if a_els[i] != b_els[j]:
                continue
            try:
                d = np.array([fl(b_pos[j][c] - a_pos[i][c]) for c in range(3)])
            except core.Unsupported:
                # the difference varies with the symbolic shift on this path region: a continuous non-constant function is not a lattice
                # vector (a discrete set) on the region, so this is not the same site modulo the lattice
                continue
            if np.linalg.norm(nearest_image(d, cell)) <= tol:
                hit = j
                break
        if hit is None:
            return False, f'no site for original atom {i} ({a_els[i]})'
        free.remove(hit)
    return True, ''


def second_replacement(ctx, st2, repl_name, cell, label='2nd: '):
    """a further replacement on a (symbolic) structure produced by earlier steps; occurrences are taken from the real search (C01-C03's
    subject), the placement oracle is the same as for a first replacement"""
    smotif, rel, rpos = REPL[repl_name]
    sel, spos = MOTIFS[smotif]
    search = make_pattern(ctx, None, elements=sel, positions=np.array(spos, dtype=float))
    replace = make_pattern(ctx, None, elements=rel, positions=np.array(rpos, dtype=float))
    occ = [list(int(i) for i in t) for t in ctx.ms.mofun.find_pattern_in_structure(st2, make_pattern(ctx, None, elements=sel, positions=np.array(spos, dtype=float)), atol=A)]
    snap = [list(r) for r in st2.positions]
    res, count = ctx.ms.mofun.replace_pattern_in_structure(st2, search, replace, atol=A, return_num_matches=True)
    R2 = dict(st=st2, res=res, count=count, occ=occ, els=list(st2.elements), cell=cell, search_el=list(sel), spos=np.array(spos, dtype=float), rel=list(rel),
              rpos=np.array(rpos, dtype=float), snap_pos=snap, search=search, replace=replace, groups=[], pat_snap=([], []))
    return R2
