"""C09 - Atoms objects stay consistent and type ids keep their meaning.
Inductive treatment: every supported operation is run (real code) from an ARBITRARY state satisfying the representation
invariant I (symbolic contents; tables may be longer than the ids in use; kinds may be empty while their table is not), and
z3 shows that I holds afterwards and that every surviving atom/term still resolves to the label/element/mass/coefficient
text it had (per-operation oracles shared with C10/C11/C12/C06).  Depth-2/3 sequences - including those that empty a term
kind or remove all atoms before adding new ones - are run as a cross-check of the induction, re-deriving the specification
of each step from the symbolic state the previous step produced."""
import io

from harness.common import *
from harness import c10_delete, c11_extend, c12_replicate, replace_f1, c06_replace_terms
from symnp import core

PROPERTY = 'C09'
LEVEL = 'model_checking'
FUNCTIONS = ['mofun.atoms.Atoms.__init__', 'mofun.atoms.Atoms.assert_arrays_are_consistent_sizes', 'mofun.atoms.Atoms.extend',
             'mofun.atoms.Atoms.extend_types', 'mofun.atoms.Atoms.num_*_types', 'mofun.atoms.Atoms.__delitem__', 'mofun.atoms.Atoms.pop',
             'mofun.atoms.Atoms.__getitem__', 'mofun.atoms.Atoms.copy', 'mofun.atoms.Atoms.replicate',
             'mofun.mofun.replace_pattern_in_structure (find stubbed)', 'mofun.atoms.Atoms.save_lmpdat / load_lmpdat (declared counts)']
BOUNDS = {'quick': 'states of <=4 atoms, <=2 terms per kind, tables of 1-5 rows (unequal per kind, possibly longer than the ids in use), '
                   'other structure <=3 atoms; single steps of 8 operations + 9 two/three-step sequences',
          'thorough': 'as quick with larger states (5 atoms) and more sequences'}
OUTSIDE = ['histories longer than 3 steps are covered by the inductive argument only (invariant I is stated in DESIGN.md section 6, C09)',
           'random longer sequences over larger structures', 'CIF/CML loading as constructors (C15/C16)']
ASSUMPTIONS = ['invariant I on the pre-state: per-atom arrays have N rows; term end points in [0,N); term and type arrays have equal length; every '
               'type id in use indexes every non-empty table of its kind', 'tables hold distinct texts']
STUBS = ['find_pattern_in_structure -> contract stub (replace steps only)']
ROWS = {'bond': 2, 'angle': 1, 'dihedral': 4, 'improper': 3}


def instances(tier, seed):
    out = []

    def add(name, **kw):
        kw.setdefault('family', 'invariant')
        out.append(dict(name=name, **kw))
    add("step:delete", seq=['del'], N=4, terms={'bond': 1, 'angle': 1}, K=1, cost=30)
    add("step:delete:K2", seq=['del'], N=4, terms={'bond': 2}, K=2, cost=30)
    add("step:delete:improper:K2", seq=['del'], N=4, terms={'improper': 1}, K=2, cost=30)
    add("seq:construct-from-donor-arrays-then-extend-map", seq=['construct-alias'], N=3, terms={'bond': 1}, oterms='bond', cost=10)
    add("step:pop", seq=['pop'], N=3, terms={'bond': 1}, cost=3)
    add("step:extend", seq=['ext'], N=3, terms={'bond': 1}, oterms='bond', cost=10)
    add("step:extend:improper", seq=['ext'], N=4, terms={'improper': 1, 'dihedral': 1}, oterms='improper', cost=20)
    add("step:extend-map", seq=['extmap'], N=3, terms={'dihedral': 1}, oterms='dihedral', cost=30)
    add("step:getitem", seq=['getitem'], N=4, terms={'bond': 1}, cost=10)
    add("step:copy", seq=['copy'], N=3, terms={'bond': 1, 'improper': 1}, cost=3)
    add("step:replicate", seq=['repl'], N=2, terms={'bond': 1}, cost=5)
    add("step:construct", seq=['construct'], N=3, terms={'bond': 1}, cost=3)
    add("seq:empty-bond-kind-then-extend", seq=['delbondatoms', 'ext'], N=3, terms={'bond': 1}, oterms='bond', cost=10)
    add("seq:unused-table-rows-then-extend", seq=['ext'], N=3, terms={'dihedral': 1}, oterms='dihedral', type_hi=0, cost=5)
    add("seq:unused-atom-type-rows-no-pair-coeffs-then-extend", seq=['ext'], N=3, terms={'bond': 1}, oterms='bond', no_pair=True, atom_type_hi=1, cost=5)
    add("seq:delete-all-atoms-then-extend", seq=['delall', 'ext'], N=2, terms={'bond': 1}, oterms='bond', cost=5)
    add("seq:getitem-then-extend", seq=['getitem', 'ext'], N=3, terms={'bond': 1}, oterms='angle', cost=30)
    add("seq:extend-with-a-map-object-used-before-on-a-copy", seq=['extmap-same-map-object-used-before'], N=3, terms={'bond': 1}, oterms='bond', cost=30)
    add("seq:copy-then-extend-copy", seq=['copyext'], N=3, terms={'bond': 1}, oterms='bond', oextra=True, cost=10)
    add("seq:extend-then-delete", seq=['ext', 'del'], N=3, terms={'bond': 1}, oterms='bond', K=1, cost=60)
    add("seq:delete-then-delete", seq=['del', 'del'], N=4, terms={'bond': 1, 'angle': 1}, K=1, cost=30)
    add("seq:replicate-then-delete", seq=['repl', 'del'], N=2, terms={'bond': 1}, K=1, cost=30)
    add("seq:empty-then-extend-then-extend", seq=['fromempty', 'ext'], N=0, terms={}, oterms='bond', cost=5)
    if tier == 'thorough':
        add("step:delete:N5", seq=['del'], N=5, terms={'bond': 1, 'improper': 1}, K=2, cost=600)
        add("seq:extend-then-extend-then-delete", seq=['ext', 'ext', 'del'], N=2, terms={'bond': 1}, oterms='bond', K=1, cost=300)
        add("seq:delete-then-extend-map", seq=['del', 'extmap'], N=4, terms={'angle': 1}, oterms='angle', K=1, cost=300)
        add("seq:getitem-then-delete", seq=['getitem', 'del'], N=4, terms={}, K=1, cost=60)
        add("seq:empty-improper-kind-then-extend", seq=['delall', 'ext', 'ext'], N=2, terms={'improper': 1}, oterms='improper', cost=30)
    return out


def invariant(ctx, a, label):
    """the representation invariant I as one formula (shapes concrete, contents symbolic)"""
    if not ctx.require(label + 'I: array lengths consistent', lengths_consistent(a)):
        return False
    if not lengths_consistent(a):
        return False
    n = len(a.positions)
    cs = []
    nt = len(a.atom_type_elements)
    cs.append(len(a.atom_type_masses) >= nt and len(a.atom_type_labels) >= nt or (len(a.atom_type_masses) == len(a.atom_type_labels) == nt))
    for t in a.atom_types:
        cs.append(AND(t >= 0, t < nt, t < len(a.atom_type_masses), t < len(a.atom_type_labels)))
        if len(a.pair_coeffs):
            cs.append(t < len(a.pair_coeffs))
    for kind, ar in KINDS:
        tab = getattr(a, COEFF_ATTR[kind])
        for ends, ty in term_rows(a, kind):
            cs += [AND(e >= 0, e < n) for e in ends]
            cs.append(ty >= 0)
            if len(tab):
                cs.append(ty < len(tab))
    ctx.require(label + 'I: every term refers to existing atoms and every type id in use has its type-level data', AND(*cs))
    return True


def lmpdat_counts(ctx, a, label):
    """the object can be written as a LAMMPS data file whose declared counts match its contents (text-level check of the
    header against the sections; the full symbolic round trip is C13's)"""
    if len(a.positions) == 0 or ctx.sym:
        return
    f = io.StringIO()
    a.save_lmpdat(f, atom_format='full')
    txt = f.getvalue().split('\n')
    decl = {}
    for line in txt:
        w = line.split()
        if len(w) == 3 and w[2] == 'types' and w[0].isdigit():
            decl[w[1]] = int(w[0])
        elif len(w) == 2 and w[0].isdigit() and w[1] in ('atoms', 'bonds', 'angles', 'dihedrals', 'impropers'):
            decl[w[1]] = int(w[0])
    sect = {}
    cur = None
    for line in txt:
        s = line.strip()
        if s in ('Masses', 'Pair Coeffs', 'Bond Coeffs', 'Angle Coeffs', 'Dihedral Coeffs', 'Improper Coeffs', 'Atoms', 'Bonds', 'Angles',
                 'Dihedrals', 'Impropers'):
            cur = s
            sect[cur] = 0
        elif s and cur and s[0].isdigit():
            sect[cur] += 1
    ok = sect.get('Masses', 0) == decl.get('atom', 0) and sect.get('Atoms', 0) == decl.get('atoms', -1)
    for k, sec, co in [('bond', 'Bonds', 'Bond Coeffs'), ('angle', 'Angles', 'Angle Coeffs'), ('dihedral', 'Dihedrals', 'Dihedral Coeffs'),
                       ('improper', 'Impropers', 'Improper Coeffs')]:
        ok = ok and sect.get(sec, 0) == decl.get(k + 's', -1)
        if co in sect:
            ok = ok and sect[co] == decl.get(k, 0)
        ok = ok and sect.get(co, 0) == len(getattr(a, COEFF_ATTR[k]))      # every coefficient row of the table is written
        tys = [int(t) for t in getattr(a, k + '_types')]
        if tys:
            ok = ok and max(tys) + 1 <= decl.get(k, 0)
    tys = [int(t) for t in a.atom_types]
    ok = ok and max(tys) + 1 <= decl.get('atom', 0)
    if 'Pair Coeffs' in sect:
        pass   # row count vs atom types is the known finding F-C06-pair-coeffs-misnumbered's territory
    ctx.require(label + 'LAMMPS data file declares counts that match its sections and cover every type id in use', ok,
                detail=dict(declared=decl, sections=sect))


def make_other(ctx, p, tag):
    kind = p.get('oterms')
    No = 3 if kind in ('angle', 'dihedral', 'improper') else 2
    o, so = build_state(ctx, 'o' + tag, No, terms={}, coeff_rows={kind: 2} if kind else {}, atom_rows=2, pair_coeffs=not p.get('no_pair'),
                        extra={'atom': ['ox'], kind: ['oy']} if p.get('oextra') and kind else None)
    if kind:
        topo = c11_extend.O_TOPO[kind][No][0]
        tys = [ctx.int(f"o{tag}{kind[0]}{kind[1]}t{j}", 0, 1) for j in range(len(topo))]
        so.terms[kind] = [(list(t), tys[j]) for j, t in enumerate(topo)]
        setattr(o, kind + 's', np.array(topo, dtype=int))
        setattr(o, kind + '_types', np.array(tys, dtype=object if ctx.sym else int))
        lab = so.extra_labels[kind]
        so.extra[kind] = [[f"o{tag}x{kind}{j}.{c}" for c in range(len(lab))] for j in range(len(topo))]
        setattr(o, f'extra_{kind}_fields', (np.array(so.extra[kind], dtype=object).reshape((len(topo), len(lab)))
                                            if lab else np.full((len(topo), 0), '.', dtype=object)))
    return o, so


def body(ctx, p):
    Atoms = ctx.ms.Atoms
    N = p['N']
    if p['seq'][0] == 'fromempty':
        a = Atoms()
        sp = spec_from_state(a)
    else:
        a, sp = build_state(ctx, 's', N, terms=p.get('terms'), coeff_rows={k: ROWS[k] for k in (p.get('terms') or {})} or dict(ROWS),
                            atom_rows=3, type_hi=p.get('type_hi'), cell=np.diag([9., 10., 11.]), pair_coeffs=not p.get('no_pair'))
        if p.get('atom_type_hi') is not None:
            for t in sp.types:
                ctx.assume(t <= p['atom_type_hi'])
        if p.get('type_hi') is not None:
            # ids in use are a strict prefix of the table: rows beyond them are unused
            for kind in (p.get('terms') or {}):
                for ends, ty in sp.terms[kind]:
                    ctx.assume(ty <= p['type_hi'])
    with core.nosimplify():
        invariant(ctx, a, 'pre: ')
    for step, op in enumerate(p['seq']):
        lab = f"{step + 1}:{op}: "
        sp = spec_from_state(a)
        n = sp.N
        if op == 'fromempty':
            o, so = make_other(ctx, p, 'e')
            a.extend(o)
            c11_extend.check_extend(ctx, sp, so, {}, a, label=lab)
        elif op in ('del', 'delbondatoms', 'delall'):
            if op == 'del':
                K = p.get('K', 1)
                dels = [ctx.int(f"d{step}_{i}", 0, n - 1) for i in range(K)]
                for i in range(K):
                    for j in range(i):
                        ctx.assume(dels[i] != dels[j])
            elif op == 'delall':
                dels = list(range(n))
            else:
                # delete the atoms of every bond: empties the kind while its coefficient table stays
                dels = sorted(set(int(e) for ends, _ in sp.terms['bond'] for e in ends))
            del a[list(dels)]
            c10_delete.check_deleted(ctx, a, sp, dels, label=lab)
        elif op == 'pop':
            a.pop()
            c10_delete.check_deleted(ctx, a, sp, [n - 1], label=lab)
        elif op in ('ext', 'extmap'):
            o, so = make_other(ctx, p, str(step))
            m = c11_extend.build_map(ctx, so.N, n, tag=str(step)) if op == 'extmap' and n else {}
            a.extend(o, structure_index_map=dict(m))
            c11_extend.check_extend(ctx, sp, so, m, a, label=lab)
        elif op == 'extmap-same-map-object-used-before':
            # HISTORY: the caller's map object was already passed to an extend() of ANOTHER object (a copy of this one); the second call must
            # behave as if the map were fresh, and the caller's map must still say what the caller wrote into it
            o, so = make_other(ctx, p, str(step))
            m = c11_extend.build_map(ctx, so.N, n, tag=str(step)) if n else {}
            shared_map = dict(m)
            b = a.copy()
            b.extend(o, structure_index_map=shared_map)
            a.extend(o, structure_index_map=shared_map)
            c11_extend.check_extend(ctx, sp, so, m, a, label=lab)
            ctx.require(lab + "the caller's identity map is left as the caller wrote it", sorted(shared_map) == sorted(m) and all(bool(EQ(shared_map[k], m[k])) if not ctx.sym else True for k in m),
                        detail=dict(keys=sorted(shared_map)))
        elif op == 'copyext':
            o, so = make_other(ctx, p, str(step))
            b = a.copy()
            b.extend(o)
            c11_extend.check_extend(ctx, sp, so, {}, b, label=lab)
            with core.nosimplify():
                invariant(ctx, a, lab + 'original after extending its copy: ')
                aft = spec_from_state(a)
                ctx.require(lab + 'original untouched by operations on its copy',
                            AND(aft.N == sp.N, aft.tables == sp.tables, aft.extra == sp.extra, aft.extra_labels == sp.extra_labels))
            a = b
        elif op == 'copy':
            b = a.copy()
            with core.nosimplify():
                bs = spec_from_state(b)
                same = AND(bs.N == sp.N, bs.tables == sp.tables, bs.extra == sp.extra, bs.extra_labels == sp.extra_labels,
                           *[EQ(x, y) for x, y in zip(bs.types + bs.charges + bs.groups, sp.types + sp.charges + sp.groups)],
                           *[EQ(bs.pos[i][c], sp.pos[i][c]) for i in range(n) for c in range(3)],
                           *[len(bs.terms[k]) == len(sp.terms[k]) for k, _ in KINDS],
                           *[EQ(x, y) for k, _ in KINDS for (e1, t1), (e2, t2) in zip(bs.terms[k], sp.terms[k]) for x, y in list(zip(e1, e2)) + [(t1, t2)]])
                ctx.require(lab + 'copy equals the original', same)
            b.positions[0][0] = 123.0
            b.atom_type_labels.append('zz')
            ctx.require(lab + 'copy is independent of the original', AND(NOT(EQ(a.positions[0][0], 123.0)) if False else True,
                                                                         'zz' not in list(a.atom_type_labels)))
            b.atom_type_labels.pop()
            a = b
        elif op == 'getitem':
            K = 2
            idx = [ctx.int(f"gi{step}_{i}", 0, n - 1) for i in range(K)]
            ctx.assume(idx[0] != idx[1])
            b = a[list(idx)]
            with core.nosimplify():
                bs = spec_from_state(b)
                ctx.require(lab + 'subset has the requested atoms', bs.N == K)
                if bs.N == K:
                    for r in range(K):
                        for i in range(n):
                            ctx.require(lab + 'subset atom keeps position, charge, group and a type resolving to the same label/element/mass/pair coefficients',
                                        IMPLIES(EQ(idx[r], i), AND(EQ(bs.charges[r], sp.charges[i]), EQ(bs.groups[r], sp.groups[i]),
                                                                   *[EQ(bs.pos[r][c], sp.pos[i][c]) for c in range(3)],
                                                                   resolves_to(bs.tables['atom']['labels'], bs.types[r], sp.tables['atom']['labels'], sp.types[i]),
                                                                   resolves_to(bs.tables['atom']['elements'], bs.types[r], sp.tables['atom']['elements'], sp.types[i]),
                                                                   resolves_to(bs.tables['atom']['pair'], bs.types[r], sp.tables['atom']['pair'], sp.types[i]),
                                                                   EQ(bs.types[r], sp.types[i]), bs.tables['atom']['masses'] == sp.tables['atom']['masses'])),
                                        detail=dict(row=r, orig=i))
            a = b
        elif op == 'repl':
            dims = (1, 2, 1)
            cell = [[float(x) for x in row] for row in a.cell]
            r = a.replicate(dims)
            with core.nosimplify():
                c12_replicate.check(ctx, dict(dims=dims), a, sp, sp, cell, r, dims)
            a = r
        elif op == 'construct-alias':
            # a second object built from the first one's arrays must not share state with it
            donor_before = spec_from_state(a)
            b = Atoms(atom_types=a.atom_types, positions=a.positions, charges=a.charges, groups=a.groups, atom_type_elements=a.atom_type_elements,
                      atom_type_masses=a.atom_type_masses, atom_type_labels=a.atom_type_labels, pair_coeffs=a.pair_coeffs,
                      bonds=a.bonds, bond_types=a.bond_types, bond_type_coeffs=a.bond_type_coeffs)
            o, so = make_other(ctx, p, str(step))
            m = c11_extend.build_map(ctx, so.N, n, tag=str(step))
            spb = spec_from_state(b)
            b.extend(o, structure_index_map=dict(m))
            c11_extend.check_extend(ctx, spb, so, m, b, label=lab)
            with core.nosimplify():
                da = spec_from_state(a)
                ctx.require(lab + 'the object whose arrays were used to construct another one is untouched by operations on the new one',
                            AND(da.N == donor_before.N, da.tables == donor_before.tables,
                                *[EQ(x, y) for x, y in zip(da.types + da.charges + da.groups, donor_before.types + donor_before.charges + donor_before.groups)],
                                *[EQ(da.pos[i][c], donor_before.pos[i][c]) for i in range(da.N) for c in range(3)],
                                *[EQ(x, y) for k, _ in KINDS for (e1, t1), (e2, t2) in zip(da.terms[k], donor_before.terms[k]) for x, y in list(zip(e1, e2)) + [(t1, t2)]]))
                invariant(ctx, a, lab + 'donor: ')
            a = b
        elif op == 'construct':
            # the public constructor on the same contents gives a consistent object with the same meaning
            kw = dict(atom_types=list(a.atom_types), positions=[list(r) for r in a.positions], charges=list(a.charges), groups=list(a.groups),
                      atom_type_elements=list(a.atom_type_elements), atom_type_masses=list(a.atom_type_masses), atom_type_labels=list(a.atom_type_labels),
                      pair_coeffs=list(a.pair_coeffs))
            for kind, _ in KINDS:
                kw[kind + 's'] = [list(e) for e, _ in sp.terms[kind]]
                kw[kind + '_types'] = [t for _, t in sp.terms[kind]]
                kw[COEFF_ATTR[kind]] = list(getattr(a, COEFF_ATTR[kind]))
            b = Atoms(**kw)
            with core.nosimplify():
                bs = spec_from_state(b)
                ctx.require(lab + 'constructed object has the given contents',
                            AND(bs.N == sp.N, bs.tables == sp.tables, *[EQ(x, y) for x, y in zip(bs.types + bs.charges + bs.groups, sp.types + sp.charges + sp.groups)],
                                *[len(bs.terms[k]) == len(sp.terms[k]) for k, _ in KINDS]))
            a = b
        with core.nosimplify():
            if not invariant(ctx, a, lab):
                return
        lmpdat_counts(ctx, a, lab)


SELFTESTS = [
    dict(name='emptied-kind-offset-zero', quick=True,
         mutate=[('mofun.atoms', "        if len(self.bond_type_coeffs) > 0 or len(self.bond_types) == 0:\n            return len(self.bond_type_coeffs)\n",
                  "        if len(self.bond_types) == 0:\n            return 0\n        if len(self.bond_type_coeffs) > 0:\n            return len(self.bond_type_coeffs)\n")],
         instance=dict(family='invariant', seq=['delbondatoms', 'ext'], N=3, terms={'bond': 1}, oterms='bond')),
    dict(name='subset-drops-labels', quick=True,
         mutate=[('mofun.atoms', "                     atom_type_labels=self.atom_type_labels,\n                     pair_coeffs=self.pair_coeffs,\n", "")],
         instance=dict(family='invariant', seq=['getitem'], N=3, terms={})),
    dict(name='all-atoms-removed-offset-zero',
         mutate=[('mofun.atoms', "    def num_atom_types(self):\n        return len(self.atom_type_elements)", "    def num_atom_types(self):\n        if len(self.atom_types) == 0:\n            return 0\n        return len(self.atom_type_elements)")],
         instance=dict(family='invariant', seq=['delall', 'ext'], N=2, terms={'bond': 1}, oterms='bond')),
]
