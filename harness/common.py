"""shared builders for the bookkeeping harnesses (family F1): Atoms states are constructed directly
(the empty constructor, then every array replaced) so that every consistent state is reachable, with symbolic contents and concrete shapes."""
import numpy as np
from ordered_set import OrderedSet

from symnp.core import AND, OR, NOT, IMPLIES, IFF, EQ, ITE, SUM, COUNT, close, Sym, Fraction

KINDS = [('bond', 2), ('angle', 3), ('dihedral', 4), ('improper', 4)]
ARITY = dict(KINDS)
COEFF_ATTR = {k: f'{k}_type_coeffs' for k, _ in KINDS}


class Spec:
    """the symbolic/concrete input values a state was built from (what the oracle talks about)"""

    def __init__(self):
        self.N = 0
        self.types = []
        self.charges = []
        self.groups = []
        self.pos = []
        self.terms = {k: [] for k, _ in KINDS}        # kind -> list of (endpoints list, type)
        self.tables = {}                              # 'atom' -> dict(elements, masses, labels, pair) ; kind -> list
        self.extra_labels = {}
        self.extra = {}                               # 'atom'/kind -> list of rows (tokens)


def build_state(ctx, pfx, N, terms=None, coeff_rows=None, atom_rows=2, pair_coeffs=True, extra=None, cell=None,
                pos=None, elements=None, type_hi=None, fixed_width_extra=False, labels=None):
    """an Atoms object with N atoms.  terms: kind->count; coeff_rows: kind->number of coefficient rows (0 = no table);
    extra: 'atom'/kind -> list of column labels.  Tables hold distinct tokens prefixed by pfx."""
    Atoms = ctx.ms.Atoms
    terms = terms or {}
    coeff_rows = coeff_rows or {}
    extra = extra or {}
    sp = Spec()
    sp.N = N
    a = Atoms()        # through the real constructor (whatever private state it sets up exists), then every array is replaced below
    T = atom_rows
    sp.types = [ctx.int(f"{pfx}t{i}", 0, (type_hi if type_hi is not None else T - 1)) for i in range(N)]
    sp.charges = [ctx.real(f"{pfx}q{i}", -5, 5) for i in range(N)]
    sp.groups = [ctx.int(f"{pfx}g{i}", 0, 9) for i in range(N)]
    if pos is None:
        sp.pos = [[ctx.real(f"{pfx}p{i}{c}", -50, 50) for c in 'xyz'] for i in range(N)]
    else:
        sp.pos = pos
    if ctx.sym:
        a.positions = np.array(sp.pos, dtype=object).reshape((N, 3))
        a.atom_types = np.array(sp.types, dtype=object)
        a.charges = np.array(sp.charges, dtype=object)
        a.groups = np.array(sp.groups, dtype=object)
    else:
        a.positions = np.array(sp.pos, dtype=float).reshape((N, 3))
        a.atom_types = np.array(sp.types, dtype=int)
        a.charges = np.array(sp.charges, dtype=float)
        a.groups = np.array(sp.groups, dtype=int)
    els = elements or [f"{pfx.upper()}e{j}" for j in range(T)]
    sp.tables['atom'] = dict(elements=list(els), masses=[10.0 * (j + 1) + (0.5 if pfx != 's' else 0.0) for j in range(T)],
                             labels=list(labels) if labels else [f"{pfx}L{j}" for j in range(T)],
                             pair=[f"{pfx}pc{j} 1.0" for j in range(T)] if pair_coeffs else [])
    a.atom_type_elements = list(sp.tables['atom']['elements'])
    a.atom_type_masses = np.array(sp.tables['atom']['masses'])
    a.atom_type_labels = list(sp.tables['atom']['labels'])
    a.pair_coeffs = np.array(sp.tables['atom']['pair'])
    lab = list(extra.get('atom', []))
    sp.extra_labels['atom'] = lab
    sp.extra['atom'] = [[f"{pfx}xa{i}.{c}" for c in range(len(lab))] for i in range(N)]
    a.extra_atom_labels = OrderedSet(lab)
    # fixed_width_extra: as the public constructor / the CIF reader build them (numpy fixed-width string dtype), not object arrays
    xdt = None if fixed_width_extra else object
    a.extra_atom_fields = (np.array(sp.extra['atom'], dtype=xdt).reshape((N, len(lab)))
                           if lab else np.full((N, 0), '.', dtype=object))
    for kind, ar in KINDS:
        n = terms.get(kind, 0)
        rows = coeff_rows.get(kind, 0)
        tab = [f"{pfx}{kind[0]}{kind[1]}c{j} 1.0 2.0" for j in range(rows)]
        sp.tables[kind] = tab
        setattr(a, COEFF_ATTR[kind], np.array(tab))
        lab = list(extra.get(kind, []))
        sp.extra_labels[kind] = lab
        setattr(a, f'extra_{kind}_labels', OrderedSet(lab))
        tl = []
        for j in range(n):
            ends = [ctx.int(f"{pfx}{kind[0]}{kind[1]}{j}_{k}", 0, N - 1) for k in range(ar)]
            hi = (rows - 1) if rows else 2
            ty = ctx.int(f"{pfx}{kind[0]}{kind[1]}t{j}", 0, hi)
            tl.append((ends, ty))
        sp.terms[kind] = tl
        sp.extra[kind] = [[f"{pfx}x{kind[0]}{kind[1]}{j}.{c}" for c in range(len(lab))] for j in range(n)]
        if n:
            dt = object if ctx.sym else int
            setattr(a, kind + 's', np.array([e for e, _ in tl], dtype=dt).reshape((n, ar)))
            setattr(a, kind + '_types', np.array([t for _, t in tl], dtype=dt))
        else:
            setattr(a, kind + 's', np.array([], dtype=int))
            setattr(a, kind + '_types', np.array([], dtype=int))
        setattr(a, f'extra_{kind}_fields', (np.array(sp.extra[kind], dtype=xdt).reshape((n, len(lab)))
                                           if lab else np.full((n, 0), '.', dtype=object)))
    a.cell = None if cell is None else np.array(cell)
    return a, sp


def term_rows(a, kind):
    """list of (endpoints list, type) currently in the object"""
    arr = getattr(a, kind + 's')
    tys = getattr(a, kind + '_types')
    return [(list(arr[r]), tys[r]) for r in range(len(arr))]


def lengths_consistent(a):
    """the shape part of the invariant (concrete in both modes)"""
    n = len(a.positions)
    ok = len(a.atom_types) == n and len(a.charges) == n and len(a.groups) == n and len(a.extra_atom_fields) == n
    for kind, ar in KINDS:
        arr = getattr(a, kind + 's')
        tys = getattr(a, kind + '_types')
        xf = getattr(a, f'extra_{kind}_fields')
        ok = ok and len(arr) == len(tys) == len(xf)
        if len(arr):
            ok = ok and tuple(np.shape(arr)) == (len(arr), ar)
        ok = ok and np.shape(xf)[1] == len(getattr(a, f'extra_{kind}_labels'))
    ok = ok and np.shape(a.extra_atom_fields)[1] == len(a.extra_atom_labels)
    return bool(ok)


def tok(x):
    return str(x)


def spec_from_state(a):
    """read an Atoms object's current (possibly symbolic) contents into a Spec: used to check one step of a
    sequence relative to the state the previous step produced"""
    sp = Spec()
    sp.N = len(a.positions)
    sp.types = list(a.atom_types)
    sp.charges = list(a.charges)
    sp.groups = list(a.groups)
    sp.pos = [list(r) for r in a.positions]
    sp.tables['atom'] = dict(elements=[str(x) for x in a.atom_type_elements],
                             masses=[float(x) for x in a.atom_type_masses],
                             labels=[str(x) for x in a.atom_type_labels], pair=[str(x) for x in a.pair_coeffs])
    sp.extra_labels['atom'] = list(a.extra_atom_labels)
    sp.extra['atom'] = [[tok(x) for x in r] for r in a.extra_atom_fields]
    for kind, ar in KINDS:
        sp.terms[kind] = term_rows(a, kind)
        sp.tables[kind] = [str(x) for x in getattr(a, COEFF_ATTR[kind])]
        sp.extra_labels[kind] = list(getattr(a, f'extra_{kind}_labels'))
        sp.extra[kind] = [[tok(x) for x in r] for r in getattr(a, f'extra_{kind}_fields')]
    return sp


def resolves_to(result_table, result_type, source_table, source_type):
    """result_table[result_type] is the same text as source_table[source_type] (type ids possibly symbolic)"""
    cs = []
    for v, text in enumerate(source_table):
        ws = [w for w, t in enumerate(result_table) if t == text]
        cs.append(IMPLIES(EQ(source_type, v), OR(*[EQ(result_type, w) for w in ws])))
    cs.append(AND(source_type >= 0, source_type < len(source_table)))
    return AND(*cs)


def merged_row(labels_after, labels_src, row_src):
    """expected extra-field row after a label-wise merge ('.' where the source has no such column)"""
    return [row_src[labels_src.index(l)] if l in labels_src else '.' for l in labels_after]
