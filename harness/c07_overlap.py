"""C07 - overlapping replacements are refused, never silently corrupted (iff oracle over symbolic match tuples that may
share atoms in any combination)."""
from harness.common import *
from harness.replace_f1 import *
from symnp import core

PROPERTY = 'C07'
LEVEL = 'model_checking'
FUNCTIONS = ['mofun.mofun.replace_pattern_in_structure', 'mofun.atoms.Atoms.extend_types', 'mofun.atoms.Atoms.extend',
             'mofun.atoms.Atoms.__delitem__', 'mofun.atoms.find_unchanged_atom_pairs']
BOUNDS = {'quick': 'N<=5 atoms, M<=2 matches (3 for a 1-atom pattern) of 1-3 atom patterns sharing atoms in any combination, '
                   '6 pattern pairs (shared atoms / none / empty replacement / equal), replace_all and ignore on/off',
          'thorough': 'N<=6, M<=3 matches'}
OUTSIDE = ['more matches/atoms than the bound', 'matches that are the same atom group twice (find reports each group once)']
ASSUMPTIONS = ['find stub contract: indices distinct within a match, elements equal the pattern\'s, no two matches on the same atom group']
STUBS = ['find_pattern_in_structure -> contract stub (symbolic match tuples, arbitrary positions, identity rotation)',
         'random.sample -> nondeterministic subset']


def instances(tier, seed):
    out = []

    def add(name, **kw):
        kw.setdefault('family', 'overlap')
        kw.setdefault('overlap', 'any')
        out.append(dict(name=name, **kw))
    for pat in ['CH->CF', 'CH->NOO', 'CH->nothing', 'CH->C']:
        for ra in (False, True):
            for ign in (False, True):
                if pat == 'CH->nothing' and ra:
                    continue
                add(f"ovl:{pat}:M2:ra={int(ra)}:ign={int(ign)}", pattern=pat, N=4, M=2, replace_all=ra, ignore=ign, cost=10)
    add("ovl:CH->CH-moved-0.002A:M2", pattern='CH->CH-moved-0.002A', N=4, M=2, cost=10)
    add("ovl:CH->CH-moved:M2", pattern='CH->CH-moved', N=4, M=2, cost=10)
    add("ovl:CH->CF-common-atom-2e-7-apart:M2", pattern='CH->CF-common-atom-2e-7-apart', N=4, M=2, cost=10)
    add("ovl:CH->CF-ff-labels:M2", pattern='CH->CF-ff-labels', N=4, M=2, cost=10)
    # accepted overlaps on a structure that carries terms: the shared atom is removed once, the terms of all other atoms follow their atoms
    add("ovl:CH->nothing:M2:structure-bond", pattern='CH->nothing', N=5, M=2, terms={'bond': 1}, s_rows={'bond': 2}, cost=400)
    # (N=5: two matches sharing an atom remove three atoms; a bond between the two survivors needs a fifth atom)
    n5 = 5 if tier == 'thorough' else 4
    add("ovl:CH->nothing:M2:structure-bond:ign", pattern='CH->nothing', N=n5, M=2, terms={'bond': 1}, s_rows={'bond': 2}, ignore=True, cost=40)
    add("ovl:CH->C:M2:structure-bond", pattern='CH->C', N=n5, M=2, terms={'bond': 1}, s_rows={'bond': 2}, cost=40)
    add("ovl:CCH->CN:M2", pattern='CCH->CN', N=5, M=2, cost=60)
    add("ovl:CHH->CHH:M2", pattern='CHH->CHH', N=4, M=2, cost=30)
    add("ovl:CHH->CHH:M2:replace_all", pattern='CHH->CHH', N=4, M=2, replace_all=True, cost=30)
    add("ovl:H->F:M3", pattern='H->F', N=4, M=3, cost=10)
    add("ovl:CH->CF:M2:fraction", pattern='CH->CF', N=4, M=2, fraction='sym', cost=20)
    if tier == 'thorough':
        add("ovl:CH->nothing:M2:structure-angle:ign", pattern='CH->nothing', N=5, M=2, terms={'angle': 1}, s_rows={'angle': 2}, ignore=True, cost=800)
        add("ovl:CHO->CHN:M2", pattern='CHO->CHN', N=5, M=2, cost=100)
        add("ovl:CH->CF:M3", pattern='CH->CF', N=5, M=3, cost=300)
        add("ovl:CH->NOO:M3:ign", pattern='CH->NOO', N=5, M=3, ignore=True, cost=300)
        add("ovl:CH->NOO:M3", pattern='CH->NOO', N=5, M=3, cost=300)
        add("ovl:CHO->CHN:M2:N6:replace_all", pattern='CHO->CHN', N=6, M=2, replace_all=True, cost=300)
        add("ovl:CH->CF:M3:fraction", pattern='CH->CF', N=5, M=3, fraction='sym', cost=300)
    return out


def body(ctx, p):
    R = run_replace(ctx, p)
    with core.nosimplify():
        check(ctx, p, R)


def check(ctx, p, R):
    # which atoms each selected match would remove (independent of the code's set arithmetic)
    sel = R['selected']
    n = R['n']
    nR = len(R['repl_d']['el'])
    kept = set(R['shared'].values())
    rem = {m: [R['idx'][m][k] for k in range(n) if k not in kept or nR == 0] for m in sel}
    clash = OR(*[EQ(x, y) for a_, m in enumerate(sel) for m2 in sel[:a_] for x in rem[m] for y in rem[m2]])
    should_raise = AND(clash, not p.get('ignore'), nR > 0)
    ctx.observe('raised', R['raised'] is not None)
    if R['raised'] is not None and not R['sampled']:
        # the error came before any subset was drawn although the fraction may be below 1: then it must be justified for EVERY subset of
        # the size the fraction asks for (only matches selected for replacement may clash)
        import itertools
        M, f = R['M'], R['f']
        allrem = {m: [R['idx'][m][k] for k in range(n) if k not in kept or nR == 0] for m in range(M)}
        for k in range(M + 1):
            nearest = AND(f < 1, k - f * M < 0.5, f * M - k < 0.5)
            for S in itertools.combinations(range(M), k):
                cl = OR(*[EQ(x, y) for a_, m in enumerate(S) for m2 in S[:a_] for x in allrem[m] for y in allrem[m2]])
                ctx.require('no overlap error for matches that are not selected for replacement (partial replacement)',
                            IMPLIES(nearest, AND(cl, not p.get('ignore'), nR > 0)), detail=dict(subset=S, k=k))
    ctx.require('overlap error raised exactly when two selected matches remove the same atom (and not ignored)',
                IFF(should_raise, R['raised'] is not None), detail=dict(raised=R['raised']))
    if R['raised'] is None:
        ctx.require('a structure is returned when no error is raised', R['result'] is not None)
        if not p.get('ignore') or nR == 0:
            L = layout(R)
            ctx.require('each structure atom removed at most once / atom count adds up',
                        len(R['result'].positions) == L['n_final'] and lengths_consistent(R['result']),
                        detail=dict(n=len(R['result'].positions), want=L['n_final']))
            ctx.observe('n_atoms', len(R['result'].positions))
            if len(R['result'].positions) == L['n_final'] and lengths_consistent(R['result']) and p.get('terms'):
                # structure terms (the patterns of these instances bring none): kept iff no end point is removed, re-indexed by the
                # number of DISTINCT removed atoms below each end point, type unchanged
                dele = L['deleted']
                for kind, ar in KINDS:
                    stt = R['sp'].terms[kind]
                    rows = term_rows(R['result'], kind)
                    flags = [NOT(OR(*[EQ(x, d) for x in ends for d in dele])) for ends, _ in stt]
                    ctx.require(f'{kind}: structure terms survive iff none of their atoms is removed (count)', EQ(COUNT(flags), len(rows)) if stt else len(rows) == 0,
                                detail=dict(kind=kind, n=len(rows)))
                    pref = [COUNT(flags[:j]) for j in range(len(stt))]
                    for r in range(len(rows)):
                        for j, (ends, ty) in enumerate(stt):
                            ctx.require(f'{kind}: a surviving structure term still joins the same atoms (each removed atom counted once)',
                                        IMPLIES(AND(flags[j], EQ(pref[j], r)),
                                                AND(*[EQ(rows[r][0][c], ends[c] - COUNT([d < ends[c] for d in dele])) for c in range(ar)], EQ(rows[r][1], ty))),
                                        detail=dict(kind=kind, row=r))
    else:
        ctx.require('no structure handed back with the error', R['result'] is None)


SELFTESTS = [
    dict(name='retained-atoms-not-excluded', quick=True,
         mutate=[('mofun.mofun', "to_delete_linker = set(match_indices[m_i]) - set(structure_index_map.values())",
                  "to_delete_linker = set(match_indices[m_i])")],
         instance=dict(family='overlap', overlap='any', pattern='CH->CF', N=4, M=2)),
    dict(name='any()-on-index-set', quick=True,
         mutate=[('mofun.mofun', "if (to_delete.isdisjoint(to_delete_linker) or ignore_atoms_should_not_be_deleted_twice):",
                  "if (not any(to_delete & to_delete_linker) or ignore_atoms_should_not_be_deleted_twice):")],
         instance=dict(family='overlap', overlap='any', pattern='CH->NOO', N=4, M=2)),
]
