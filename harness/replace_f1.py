"""Bookkeeping half of replace_pattern_in_structure (family F1), shared by C04 / C06 / C07 (and C09).

The real replace_pattern_in_structure, extend_types, extend, __delitem__ run; find_pattern_in_structure is replaced
by a contract stub that returns symbolic match tuples (distinct valid indices whose elements equal the pattern's =
property C01), arbitrary positions and an opaque rotation.  The geometry half is checked end to end by C01-C05/C08.
"""
import copy

from harness.common import *
from symnp import core, proxies

ELEMS = ['C', 'H', 'O']


def _pat(el, pos, **kw):
    return dict(el=el, pos=pos, **kw)


FULL_R = _pat(['C', 'F', 'O', 'N'], [(0, 0, 0), (1.35, 0, 0), (1.9, 1.1, 0), (3.0, 1.2, 0.4)],
              charges=[0.1, -0.2, 0.3, -0.4], groups=[1, 1, 2, 2],
              bonds=[(0, 1), (2, 1)], bond_types=[1, 0], angles=[(0, 1, 2)], angle_types=[1],
              dihedrals=[(0, 1, 2, 3)], dihedral_types=[0], impropers=[(1, 0, 2, 3)], improper_types=[1],
              tables=True, labels=['pC', 'pF', 'pO', 'pN'])

PATTERNS = {
    # search C-H ; replacement keeps the C (same element, same coordinates) and brings F
    'CH->CF': (_pat(['C', 'H'], [(0, 0, 0), (1.1, 0, 0)]),
               _pat(['C', 'F'], [(0, 0, 0), (1.35, 0, 0)], charges=[0.25, -0.25], groups=[3, 4],
                    bonds=[(0, 1)], bond_types=[1], tables=True, labels=['pC', 'pF'])),
    # both patterns live away from the origin (as when they are cut out of a structure)
    'CH->CF-offset': (_pat(['C', 'H'], [(3.0, 1.0, 2.0), (4.1, 1.0, 2.0)]),
                      _pat(['C', 'F'], [(3.0, 1.0, 2.0), (4.35, 1.0, 2.0)], charges=[0.25, -0.25], groups=[3, 4],
                           bonds=[(0, 1)], bond_types=[1], tables=True, labels=['pC', 'pF'])),
    'CH->CF-reversed-bond': (_pat(['C', 'H'], [(0, 0, 0), (1.1, 0, 0)]),
                             _pat(['F', 'C'], [(1.35, 0, 0), (0, 0, 0)], charges=[-0.25, 0.25], groups=[3, 4],
                                  bonds=[(0, 1)], bond_types=[0], tables=True, labels=['pF', 'pC'])),
    # the same pair with force-field labels on the replacement only (search pattern built from plain elements): what counts as a common
    # atom is element + coordinates, not the label
    'CH->CF-ff-labels': (_pat(['C', 'H'], [(0, 0, 0), (1.1, 0, 0)], labels=['C', 'H']),
                         _pat(['C', 'F'], [(0, 0, 0), (1.35, 0, 0)], charges=[0.25, -0.25], groups=[3, 4],
                              bonds=[(0, 1)], bond_types=[1], tables=True, labels=['C_R', 'F_'])),
    # replacement cut from a CIF-like source: extra per-atom and per-bond columns the structure does not have
    'CH->CF-extra-columns': (_pat(['C', 'H'], [(0, 0, 0), (1.1, 0, 0)]),
                             _pat(['C', 'F'], [(0, 0, 0), (1.35, 0, 0)], charges=[0.25, -0.25], groups=[3, 4],
                                  bonds=[(0, 1)], bond_types=[1], tables=True, labels=['pC', 'pF'],
                                  extra_atom=(['_atom_site_occupancy', '_atom_site_ff_label'], [['1.0', 'C_R'], ['0.5', 'F_']]),
                                  extra_bond=(['_geom_bond_distance'], [['1.350']]))),
    'CH->full': (_pat(['C', 'H'], [(0, 0, 0), (1.1, 0, 0)]), FULL_R),
    'CH->NOO': (_pat(['C', 'H'], [(0, 0, 0), (1.1, 0, 0)]),
                _pat(['N', 'O', 'O'], [(0.1, 0, 0), (1.2, 0, 0), (-0.5, 1.0, 0)], charges=[0.5, -0.3, -0.2],
                     groups=[0, 0, 0], bonds=[(0, 1), (0, 2)], bond_types=[0, 0], angles=[(1, 0, 2)], angle_types=[0],
                     tables=True, labels=['pN', 'pO'], types=[0, 1, 1])),
    # the replacement's H is the search H moved by 0.05 A (NOT a common atom: coordinates differ) with another charge
    'CH->CH-moved': (_pat(['C', 'H'], [(0, 0, 0), (1.1, 0, 0)]),
                     _pat(['C', 'H'], [(0, 0, 0), (1.15, 0, 0)], charges=[0.0, 0.37], groups=[0, 5])),
    # ... and by 0.002 A (a re-fitted fragment, coordinates differing in the third decimal): still not "the same coordinates"
    'CH->CH-moved-0.002A': (_pat(['C', 'H'], [(0, 0, 0), (1.1, 0, 0)]),
                            _pat(['C', 'H'], [(0, 0, 0), (1.1, 0.002, 0)], charges=[0.0, 0.37], groups=[0, 5])),
    # search C_a-C_b-H ; replacement keeps C_a and brings N: C_b and H are removed (an atom another match may merely retain)
    'CCH->CN': (_pat(['C', 'C', 'H'], [(0, 0, 0), (1.5, 0, 0), (2.0, 0.9, 0)]),
                _pat(['C', 'N'], [(0, 0, 0), (1.4, 0.2, 0)], charges=[0.0, -0.3], groups=[0, 1], bonds=[(0, 1)], bond_types=[0], tables=True, labels=['pC', 'pN'])),
    # both patterns on ONE force-field type table with two types of the same element (cut from the same LAMMPS data file): the replacement
    # re-types the first carbon in place (C_R -> C_3: same element, same coordinates = a common atom that stays and adopts the new type)
    'CCH->CCF-retyped': (_pat(['C', 'C', 'H'], [(0, 0, 0), (1.5, 0, 0), (2.0, 0.9, 0)], types=[0, 1, 2], type_elements=['C', 'C', 'H', 'F'], labels=['C_R', 'C_3', 'H_', 'F_']),
                         _pat(['C', 'C', 'F'], [(0, 0, 0), (1.5, 0, 0), (2.1, 1.0, 0)], types=[1, 1, 3], type_elements=['C', 'C', 'H', 'F'], labels=['C_R', 'C_3', 'H_', 'F_'],
                              charges=[0.11, 0.22, -0.33], groups=[5, 6, 7], bonds=[(1, 2)], bond_types=[1], tables=True)),
    # the common atom's coordinates in the two patterns are not bit-identical (separately written files): 2e-7 A apart, i.e. the same
    # coordinates to far below the 1e-5 A the library itself uses, and on either side of a multiple of 1e-5
    # (the common atom is NOT the first search atom: the library moves that one to the origin before comparing)
    'CH->CF-common-atom-2e-7-apart': (_pat(['H', 'C'], [(0.0, 0.0, 0.0), (1.0899951, 0.5, 0.25)]),
                                      _pat(['C', 'F'], [(1.0899949, 0.5, 0.25), (-0.3, 0.1, 0.0)], charges=[0.25, -0.25], groups=[3, 4],
                                           bonds=[(0, 1)], bond_types=[1], tables=True, labels=['pC', 'pF'])),
    'H->F': (_pat(['H'], [(0, 0, 0)]), _pat(['F'], [(0, 0, 0)], charges=[-0.1], groups=[0])),
    'CH->nothing': (_pat(['C', 'H'], [(0, 0, 0), (1.1, 0, 0)]), _pat([], [])),
    'CHH->CHH': (_pat(['C', 'H', 'H'], [(0, 0, 0), (1.1, 0, 0), (-0.4, 1.0, 0)]),
                 _pat(['C', 'H', 'H'], [(0, 0, 0), (1.1, 0, 0), (-0.4, 1.0, 0)], charges=[0.3, 0.1, 0.1], groups=[0, 0, 0],
                      bonds=[(0, 1), (0, 2)], bond_types=[0, 0], angles=[(1, 0, 2)], angle_types=[0], tables=True,
                      labels=['pC', 'pH'], types=[0, 1, 1])),
    'CH->C': (_pat(['C', 'H'], [(0, 0, 0), (1.1, 0, 0)]), _pat(['C'], [(0, 0, 0)], charges=[0.0], groups=[0])),
    'CHO->CHN': (_pat(['C', 'H', 'O'], [(0, 0, 0), (1.1, 0, 0), (-0.5, 1.1, 0)]),
                 _pat(['C', 'H', 'N'], [(0, 0, 0), (1.1, 0, 0), (-0.5, 1.15, 0)], charges=[0.0, 0.1, -0.1],
                      groups=[0, 0, 0], bonds=[(0, 2), (1, 0)], bond_types=[0, 1], angles=[(2, 0, 1)], angle_types=[0],
                      tables=True, labels=['pC', 'pH', 'pN'])),
}

KCOEFF = {'bond': 'bond_type_coeffs', 'angle': 'angle_type_coeffs', 'dihedral': 'dihedral_type_coeffs',
          'improper': 'improper_type_coeffs'}


def make_pattern(ctx, d, pair=True):
    Atoms = ctx.ms.Atoms
    el = d['el']
    if not el:
        return Atoms()
    kw = {}
    if 'type_elements' in d:
        kw.update(atom_types=d['types'], atom_type_elements=list(d['type_elements']))
        ntypes = len(d['type_elements'])
    elif 'types' in d:
        uniq = list(dict.fromkeys(el))
        kw.update(atom_types=d['types'], atom_type_elements=uniq)
        ntypes = len(uniq)
    else:
        kw.update(elements=list(el))
        ntypes = len(dict.fromkeys(el))
    lab = d.get('labels')
    if lab:
        kw['atom_type_labels'] = list(lab[:ntypes])
        if pair:
            kw['pair_coeffs'] = [f"lj {l} 3.{i}" for i, l in enumerate(lab[:ntypes])]
    else:
        kw['atom_type_labels'] = [f"p{e}" for e in list(dict.fromkeys(el))]
    for k, _ in KINDS:
        if d.get(k + 's'):
            kw[k + 's'] = list(d[k + 's'])
            kw[k + '_types'] = list(d[k + '_types'])
            if d.get('tables'):
                kw[KCOEFF[k]] = [f"P{k}{j} 9.{j} # pat" if j else f"P{k}{j} 9.{j}" for j in range(2)]
    for k in ('atom', 'bond'):
        if d.get('extra_' + k):
            kw[f'extra_{k}_labels'] = list(d['extra_' + k][0])
            kw[f'extra_{k}_fields'] = [list(r) for r in d['extra_' + k][1]]
    a = Atoms(positions=[list(map(float, x)) for x in d['pos']], charges=d.get('charges'), groups=d.get('groups'), **kw)
    if ctx.sym:
        a.positions = a.positions.astype(object)
    return a


class IdQ:
    """opaque rotation returned by the find stub (identity; orientation is C05's business)"""

    def apply(self, v):
        v = np.asarray(v)
        return v.astype(object) if v.dtype != object else v.copy()

    def __deepcopy__(self, memo):
        return self


class RecRandom:
    def __init__(self, inner):
        self.inner = inner
        self.sampled = None

    def sample(self, pop, k):
        r = self.inner.sample(pop, k)
        self.sampled = list(r)
        return r

    def choice(self, xs):
        return self.inner.choice(xs)

    def __getattr__(self, n):
        return getattr(self.inner, n)


def elem_constraint(sp, i_sym, elem, table):
    """structure atom i_sym has element elem (C01 contract of the find stub)"""
    rows = [v for v, e in enumerate(table) if e == elem]
    cs = []
    for i in range(sp.N):
        cs.append(IMPLIES(EQ(i_sym, i), OR(*[EQ(sp.types[i], v) for v in rows])))
    return AND(*cs)


def run_replace(ctx, p, given=None, tag=''):
    """builds structure/patterns/stub, calls the real replace_pattern_in_structure; returns a record.
    given=(structure, spec): continue from an existing (symbolic) state instead of building one"""
    srch_d, repl_d = PATTERNS[p['pattern']]
    M = p['M']
    M_mod = ctx.ms.mofun
    rows = p.get('s_rows', {})
    if given is None:
        N = p['N']
        st, sp = build_state(ctx, 's', N, terms=p.get('terms'), coeff_rows=rows, atom_rows=3, elements=list(ELEMS),
                             pair_coeffs=p.get('s_pair', True), cell=np.diag([20., 21., 22.]),
                             extra=p.get('extra'), labels=p.get('s_labels'))
    else:
        st, sp = given
        N = sp.N
    search = make_pattern(ctx, srch_d)
    replace = make_pattern(ctx, repl_d, pair=p.get('p_pair', True))
    n = len(srch_d['el'])
    idx = [[ctx.int(f"m{tag}{m}_{k}", 0, N - 1) for k in range(n)] for m in range(M)]
    for m in range(M):
        for k in range(n):
            for k2 in range(k):
                ctx.assume(idx[m][k] != idx[m][k2])
            with core.nosimplify():
                c = elem_constraint(sp, idx[m][k], srch_d['el'][k], sp.tables['atom']['elements'])
            ctx.assume(c)
    overlap = p.get('overlap', 'disjoint')
    for m in range(M):
        for m2 in range(m):
            if overlap == 'disjoint':
                for k in range(n):
                    for k2 in range(n):
                        ctx.assume(idx[m][k] != idx[m2][k2])
            else:   # any overlap, but never the same atom group (find reports each group once)
                ctx.assume(OR(*[AND(*[idx[m][k] != idx[m2][k2] for k2 in range(n)]) for k in range(n)]))
    if p.get('after_matches'):
        p['after_matches'](ctx, sp, idx)
    # matched positions are concrete here (bookkeeping does not depend on them; the placement of inserted atoms is C05's):
    # symbolic ones would only multiply paths through the periodic wrap of every inserted coordinate
    mpos = [[[1.5 + 2.0 * m + 0.7 * k + 0.3 * c for c in range(3)] for k in range(n)] for m in range(M)]
    calls = []

    def find_stub(structure, pattern, **kw):
        calls.append(kw)
        if M == 0:
            return [], np.array([]), np.array([])
        q = np.empty(M, dtype=object)
        for m in range(M):
            q[m] = IdQ()
        return [tuple(t) for t in idx], np.array(mpos, dtype=float), q

    atol_v = ctx.real('atol', 0.001, 0.5)        # the tolerance is only forwarded here (the search itself is stubbed): it must arrive unchanged
    f = p.get('fraction', 1.0)
    if f == 'sym':
        f = ctx.real('fraction', 0, 1, hi_strict=False)
    rec = RecRandom(M_mod.random)
    snap = dict(st=spec_from_state(st), search=copy.deepcopy(search.__dict__), replace=copy.deepcopy(replace.__dict__))
    old_find, old_random = M_mod.find_pattern_in_structure, M_mod.random
    M_mod.find_pattern_in_structure = find_stub
    M_mod.random = rec
    raised = None
    result = count = None
    try:
        try:
            result, count = M_mod.replace_pattern_in_structure(
                st, search, replace, replace_fraction=f, return_num_matches=True, atol=atol_v,
                replace_all=bool(p.get('replace_all')), ignore_atoms_should_not_be_deleted_twice=bool(p.get('ignore')))
        except M_mod.AtomsShouldNotBeDeletedTwice:
            raised = 'overlap'
    finally:
        M_mod.find_pattern_in_structure = old_find
        M_mod.random = old_random
    selected = list(rec.sampled) if rec.sampled is not None else list(range(M))
    shared = {}          # replace idx -> search idx
    if not p.get('replace_all'):
        for i, (e1, p1) in enumerate(zip(repl_d['el'], repl_d['pos'])):
            for j, (e2, p2) in enumerate(zip(srch_d['el'], srch_d['pos'])):
                if e1 == e2 and sum((x - y) ** 2 for x, y in zip(p1, p2)) ** 0.5 < 1e-5:
                    shared[i] = j
                    break
    return dict(st=st, sp=sp, search=search, replace=replace, srch_d=srch_d, repl_d=repl_d, idx=idx, mpos=mpos, f=f,
                sampled=rec.sampled is not None, selected=selected, shared=shared, raised=raised, result=result,
                count=count, snap=snap, calls=calls, N=N, M=M, n=n, atol=atol_v)


def layout(R):
    """concrete layout of the expected result (match indices are concrete on this path: the code hashed them)"""
    sel = R['selected']
    n, N = R['n'], R['N']
    shared = R['shared']
    nR = len(R['repl_d']['el'])
    mt = {m: [int(x) for x in R['idx'][m]] for m in sel}
    removal = {}
    for m in sel:
        kept = set(shared.values()) if nR else set()
        removal[m] = [mt[m][k] for k in range(n) if k not in kept]
    deleted = sorted(set(x for m in sel for x in removal[m]))
    survivors = [i for i in range(N) if i not in deleted]
    final_of = {i: r for r, i in enumerate(survivors)}
    inserted = []      # (match, replace atom index)
    for m in sel:
        for k in range(nR):
            if k not in shared:
                inserted.append((m, k))
    ins_final = {mk: len(survivors) + r for r, mk in enumerate(inserted)}
    return dict(mt=mt, removal=removal, deleted=deleted, survivors=survivors, final_of=final_of, inserted=inserted,
                ins_final=ins_final, n_final=len(survivors) + len(inserted))


def pattern_atom_final(R, L, m, k):
    """final index of replacement-pattern atom k of match m"""
    if k in R['shared']:
        return L['final_of'][L['mt'][m][R['shared'][k]]]
    return L['ins_final'][(m, k)]


def unmodified_inputs(ctx, R):
    st, sp0 = R['st'], R['snap']['st']
    after = spec_from_state(st)
    same = AND(after.N == sp0.N, after.tables == sp0.tables, after.extra == sp0.extra, after.extra_labels == sp0.extra_labels, lengths_consistent(st),
               *[EQ(x, y) for x, y in zip(after.types + after.charges + after.groups, sp0.types + sp0.charges + sp0.groups)],
               *[EQ(after.pos[i][c], sp0.pos[i][c]) for i in range(sp0.N) for c in range(3)],
               *[EQ(x, y) for k, _ in KINDS for (e1, t1), (e2, t2) in zip(after.terms[k], sp0.terms[k])
                 for x, y in list(zip(e1, e2)) + [(t1, t2)]],
               *[len(after.terms[k]) == len(sp0.terms[k]) for k, _ in KINDS])
    ctx.require('input structure left unmodified', same)
    for nm in ('search', 'replace'):
        now, then = R[nm].__dict__, R['snap'][nm]
        ok = True
        for key, v in then.items():
            w = now[key]
            if isinstance(v, np.ndarray):
                ok = ok and np.shape(v) == np.shape(w) and (v.size == 0 or bool(np.all(v == w)))
            else:
                ok = ok and (list(v) == list(w) if hasattr(v, '__iter__') and not isinstance(v, str) else v == w)
        ctx.require(f'{nm} pattern left unmodified', ok)
