"""C12 - replication describes the same crystal in a larger cell.
Runs the real Atoms.replicate (-> copy, translate, extend with shared type ids).  Symbolic: all nine cell components
(arbitrary orientation and shape), positions, charges, groups, type ids, term end points/types.  Enumerated:
replication triples, which term kinds are present."""
import itertools

from harness.common import *
from symnp import core

PROPERTY = 'C12'
LEVEL = 'model_checking'
FUNCTIONS = ['mofun.atoms.Atoms.replicate', 'mofun.atoms.Atoms.copy', 'mofun.atoms.Atoms.translate',
             'mofun.atoms.Atoms.extend (offsets supplied)', 'mofun.atoms.Atoms.extend.find_existing_topo']
BOUNDS = {'quick': 'N<=3 atoms, one term of each kind (end points symbolic for one kind at a time), replication '
                   'factors with product <=6 incl. unequal ones, cell = 9 symbolic reals; two terms on the same atoms; the replica edited in place afterwards; '
                   'a failed extend elsewhere beforehand',
          'thorough': 'as quick with factors up to product 12, N<=3 and two symbolic-end-point kinds'}
OUTSIDE = ['factors with product > 12', 'structures without a cell (replicate raises by design)',
           'bonds crossing the periodic boundary are not re-wired (documented limitation of replicate)']
ASSUMPTIONS = ['replication factors are positive integers', 'term end points in range']
STUBS = []

TOPO = {'bond': [(0, 1)], 'angle': [(1, 0, 2)], 'dihedral': [(0, 1, 2, 0)], 'improper': [(2, 0, 1, 1)]}


def instances(tier, seed):
    out = []

    def add(name, **kw):
        kw.setdefault('family', 'replicate')
        out.append(dict(name=name, **kw))
    triples = [(1, 1, 1), (2, 1, 1), (1, 2, 1), (1, 1, 2), (1, 2, 3), (2, 2, 1), (3, 1, 2)]
    for t in triples:
        add(f"repl:{t}:bond-sym", dims=t, N=2, symkind='bond', kinds=['bond'], cost=t[0] * t[1] * t[2])
    add("repl:(2,1,2):all-kinds", dims=(2, 1, 2), N=3, symkind=None, kinds=['bond', 'angle', 'dihedral', 'improper'],
        extra=True, cost=6)
    add("repl:(1,3,1):improper-sym", dims=(1, 3, 1), N=2, symkind='improper', kinds=['improper'], cost=10)
    add("repl:(2,1,1):angle-sym", dims=(2, 1, 1), N=3, symkind='angle', kinds=['angle', 'bond'], cost=10)
    add("repl:(2,1,1):history:failed-extend-elsewhere", dims=(2, 1, 1), N=2, symkind='bond', kinds=['bond'], history='failed-extend-elsewhere', cost=5)
    add("repl:(1,2,2):history:failed-extend-elsewhere", dims=(1, 2, 2), N=3, symkind=None, kinds=['bond', 'angle'], history='failed-extend-elsewhere', cost=5)
    add("repl:(2,1,1):two-bonds-on-the-same-atoms", dims=(2, 1, 1), N=2, symkind=None, kinds=['bond'], double=['bond'], cost=5)
    add("repl:(1,2,1):two-dihedrals-on-the-same-atoms", dims=(1, 2, 1), N=3, symkind=None, kinds=['dihedral', 'bond'], double=['dihedral'], cost=5)
    add("repl:(1,1,2):no-terms", dims=(1, 1, 2), N=2, symkind=None, kinds=[], cost=1)
    if tier == 'thorough':
        for t in [(2, 2, 2), (1, 3, 4), (4, 1, 3), (2, 3, 2), (3, 2, 1), (1, 1, 5)]:
            add(f"repl:{t}:bond-sym", dims=t, N=2, symkind='bond', kinds=['bond', 'improper'], cost=10 * t[0] * t[1] * t[2])
        add("repl:(2,2,1):dihedral-sym", dims=(2, 2, 1), N=3, symkind='dihedral', kinds=['dihedral', 'angle'], cost=200)
        add("repl:(1,2,2):all-kinds", dims=(1, 2, 2), N=3, symkind='angle', kinds=['bond', 'angle', 'dihedral', 'improper'],
            extra=True, cost=200)
    return out


def body(ctx, p):
    N = p['N']
    dims = tuple(p['dims'])
    kinds = p['kinds']
    xl = {'atom': ['xa'], 'bond': ['xb']} if p.get('extra') else None
    a, sp = build_state(ctx, 's', N, terms={k: 1 for k in kinds if k == p.get('symkind')},
                        coeff_rows={k: 2 for k in kinds}, atom_rows=2, extra=xl)
    for k in kinds:
        if k == p.get('symkind'):
            continue
        topo = [tuple(min(x, N - 1) for x in t) for t in TOPO[k]]
        ty = ctx.int(f"s{k[0]}{k[1]}t0", 0, 1)
        sp.terms[k] = [(list(topo[0]), ty)]
        setattr(a, k + 's', np.array(topo, dtype=int))
        setattr(a, k + '_types', np.array([ty], dtype=object if ctx.sym else int))
        lab = sp.extra_labels[k]
        sp.extra[k] = [[f"sx{k}{c}" for c in range(len(lab))]]
        setattr(a, f'extra_{k}_fields', np.array(sp.extra[k], dtype=object).reshape((1, len(lab))) if lab
                else np.full((1, 0), '.', dtype=object))
    for k in p.get('double', []):
        # a second term of the kind on the SAME atoms (a multi-term torsion, a bond listed once per periodic image: (0,1) and (1,0)), other type
        ends0, ty0 = sp.terms[k][0]
        ends1 = list(ends0)[::-1] if k == 'bond' else list(ends0)
        ty1 = ctx.int(f"s{k[0]}{k[1]}dup", 0, 1)
        sp.terms[k].append((ends1, ty1))
        setattr(a, k + 's', np.array([list(ends0), ends1], dtype=object if ctx.sym else int))
        setattr(a, k + '_types', np.array([ty0, ty1], dtype=object if ctx.sym else int))
        lab = sp.extra_labels[k]
        sp.extra[k] = [list(sp.extra[k][0]), [f"sx{k}dup{c}" for c in range(len(lab))]]
        setattr(a, f'extra_{k}_fields', np.array(sp.extra[k], dtype=object).reshape((2, len(lab))) if lab else np.full((2, 0), '.', dtype=object))
    cell = [[ctx.real(f"c{r}{c}", -30, 30) for c in range(3)] for r in range(3)]
    a.cell = ctx.arr(cell) if ctx.sym else np.array(cell, dtype=float)
    before = spec_from_state(a)
    if p.get('history') == 'failed-extend-elsewhere':
        # HISTORY: earlier in the process an extend() on UNRELATED objects failed part-way (a fragment whose bond names an atom the fragment
        # does not have) and the caller caught the error; nothing of that may leak into later calls on other objects
        Atoms = ctx.ms.Atoms
        junk = Atoms(elements=['He', 'Ne'], positions=[(0., 0., 0.), (1., 1., 1.)])
        bad = Atoms(elements=['Ar', 'Kr', 'Xe'], positions=[(2., 0., 0.), (3., 1., 1.), (4., 1., 0.)], bonds=[(0, 5)], bond_types=[0])
        try:
            junk.extend(bad)
        except Exception:
            pass
    r = a.replicate(dims)
    with core.nosimplify():
        check(ctx, p, a, sp, before, cell, r, dims)
    if len(r.positions) and p.get('edit_replica', True):
        # HISTORY: the replica is then edited in place (moved, charges rescaled, re-grouped, first term re-typed): the original must not follow
        r.translate((0.5, -1.25, 2.0))
        r.charges *= 2
        r.charges += 1
        r.groups[:] = 9
        r.atom_types[:] = 0
        for k, _ in KINDS:
            if len(getattr(r, k + '_types')):
                getattr(r, k + 's')[0] = getattr(r, k + 's')[0][::-1].copy()
        with core.nosimplify():
            aft = spec_from_state(a)
            ctx.require('the original is not modified by in-place edits of the replica (also for 1 x 1 x 1)',
                        AND(aft.N == before.N, *[EQ(x, y) for x, y in zip(aft.types + aft.charges + aft.groups, before.types + before.charges + before.groups)],
                            *[EQ(aft.pos[i][c], before.pos[i][c]) for i in range(before.N) for c in range(3)],
                            *[EQ(x, y) for k, _ in KINDS for (e1, t1), (e2, t2) in zip(aft.terms[k], before.terms[k]) for x, y in list(zip(e1, e2)) + [(t1, t2)]]))


def check(ctx, p, a, sp, before, cell, r, dims):
    N = sp.N
    na, nb, nc = dims
    tot = na * nb * nc
    if not ctx.require('atom count = a*b*c*N', len(r.positions) == tot * N and lengths_consistent(r),
                       detail=dict(n=len(r.positions))):
        return
    if len(r.positions) != tot * N or not lengths_consistent(r):
        return
    res = spec_from_state(r)
    ctx.observe('n_atoms', len(r.positions))
    # new cell rows = a*A, b*B, c*C
    for row, f in enumerate(dims):
        for c in range(3):
            ctx.require('new cell vectors are a*A, b*B, c*C', EQ(r.cell[row][c], f * cell[row][c]),
                        detail=dict(row=row, col=c))
    ctx.require('type tables unchanged', res.tables == sp.tables and res.extra_labels == sp.extra_labels)

    def shifted(n, ijk):
        i, j, k = ijk
        return [sp.pos[n][c] + i * cell[0][c] + j * cell[1][c] + k * cell[2][c] for c in range(3)]
    # identify the lattice offset of every block of N atoms (images are appended whole; order is not prescribed)
    cands = list(itertools.product(range(na), range(nb), range(nc)))
    ident = []
    for b in range(tot):
        found = None
        for ijk in cands:
            if ijk in ident:
                continue
            cond = AND(*[EQ(res.pos[b * N + n][c], shifted(n, ijk)[c]) for n in range(N) for c in range(3)])
            if ctx.valid(cond):
                found = ijk
                break
        if found is None:
            rest = [ijk for ijk in cands if ijk not in ident]
            ctx.require('every image block sits at a distinct lattice offset i*A+j*B+k*C',
                        OR(*[AND(*[EQ(res.pos[b * N + n][c], shifted(n, ijk)[c]) for n in range(N) for c in range(3)]) for ijk in rest]), detail=dict(block=b))
            return
        ident.append(found)
    ctx.require('each lattice offset (i,j,k) occurs exactly once', sorted(ident) == sorted(cands))
    ctx.require('the original (0,0,0) image comes first', ident[0] == (0, 0, 0)) if False else None
    for b in range(tot):
        for n in range(N):
            i = b * N + n
            ok = AND(EQ(res.types[i], sp.types[n]), EQ(res.charges[i], sp.charges[n]), EQ(res.groups[i], sp.groups[n]),
                     *[EQ(res.pos[i][c], shifted(n, ident[b])[c]) for c in range(3)],
                     res.extra['atom'][i] == sp.extra['atom'][n])
            ctx.require('image atom has identical type/charge/group at p + iA + jB + kC', ok, detail=dict(block=b, atom=n))
    for kind, ar in KINDS:
        st = sp.terms[kind]
        rows = res.terms[kind]
        if not ctx.require(f'{kind} count = a*b*c times the original', len(rows) == tot * len(st),
                           detail=dict(n=len(rows))):
            continue
        if len(rows) != tot * len(st):
            continue
        for b in range(tot):
            for t, (ends, ty) in enumerate(st):
                def same(rr):
                    return AND(*[EQ(rows[rr][0][c], ends[c] + b * N) for c in range(ar)], EQ(rows[rr][1], ty),
                               res.extra[kind][rr] == sp.extra[kind][t])
                nat = b * len(st) + t
                cond = same(nat)
                if not ctx.valid(cond):
                    cond = OR(*[same(rr) for rr in range(len(rows))])
                ctx.require(f'{kind} copied inside each image with its type', cond, detail=dict(block=b, term=t))
    # original object unchanged
    after = spec_from_state(a)
    same = AND(*[EQ(x, y) for x, y in zip(after.types + after.charges + after.groups, before.types + before.charges + before.groups)],
               *[EQ(after.pos[n][c], before.pos[n][c]) for n in range(N) for c in range(3)],
               *[EQ(a.cell[x][y], cell[x][y]) for x in range(3) for y in range(3)],
               *[EQ(x, y) for k, _ in KINDS for (e1, t1), (e2, t2) in zip(after.terms[k], before.terms[k])
                 for x, y in list(zip(e1, e2)) + [(t1, t2)]])
    ctx.require('original object not modified', AND(same, after.N == before.N, after.tables == before.tables,
                                                    after.extra == before.extra))
    if dims == (1, 1, 1):
        ctx.require('1x1x1 is the identity', AND(len(r.positions) == N,
                                                  *[EQ(r.cell[x][y], cell[x][y]) for x in range(3) for y in range(3)]))


SELFTESTS = [
    dict(name='cell-scaled-by-columns', quick=True,
         mutate=[('mofun.atoms', "repl_atoms.cell = self.cell * np.array(repldims).reshape(3, 1)", "repl_atoms.cell = self.cell * repldims")],
         instance=dict(family='replicate', dims=(1, 2, 3), N=2, symkind='bond', kinds=['bond'])),
    dict(name='four-offsets', quick=True,
         mutate=[('mofun.atoms', "offsets=(0,0,0,0,0))", "offsets=(0,0,0,0))")],
         instance=dict(family='replicate', dims=(1, 2, 1), N=2, symkind=None, kinds=['improper'])),
    dict(name='translate-with-untransposed-cell',
         mutate=[('mofun.atoms', "np.matmul(transatoms.cell.T, ucmult)", "np.matmul(transatoms.cell, ucmult)")],
         instance=dict(family='replicate', dims=(2, 1, 1), N=2, symkind=None, kinds=[])),
]
