"""C05 - inserted atoms land where the replacement pattern says, modulo the lattice.
The real find + replace run end to end (no stub) on planted structures under a symbolic translation (family F2b).  Oracle
(independent of the code's quaternion): for every replaced match, matched atoms + inserted atoms must be a PROPER rigid image
(best superposition by Kabsch/SVD, evaluated on the shift-cancelled concrete geometry) of search + replacement coordinates
modulo the lattice; every inserted atom's fractional coordinates lie in [0,1] as a formula over the symbolic shift; jointly
moving both patterns (listed rotation x symbolic translation) changes nothing."""
from harness.replace_e2e import *

PROPERTY = 'C05'
LEVEL = 'model_checking'
FUNCTIONS = ['mofun.mofun.replace_pattern_in_structure', 'mofun.mofun.find_pattern_in_structure', 'mofun.atoms.find_unchanged_atom_pairs',
             'mofun.atoms.Atoms.extend', 'mofun.atoms.Atoms.translate', 'mofun.atoms.Atoms.__delitem__',
             'mofun.helpers.quaternion_from_two_vectors', 'mofun.helpers.quaternion_from_two_vectors_around_axis']
BOUNDS = {'quick': '10 planted structures x 12 pattern pairs (asymmetric, planar, collinear, symmetric search motifs; replacement smaller/'
                   'equal/larger, with/without common atoms), 3 orthorhombic + 4 triclinic cells, one symbolic shift axis, joint rigid motion of '
                   'both patterns = 3 listed rotations x symbolic translation, hint triples other than the default',
          'thorough': 'as quick with two symbolic shift axes on 3 structures and all listed joint rotations'}
OUTSIDE = ['poses/rotations outside the list', 'IEEE rounding (bound 1e-5 A on exact copies absorbs it)', 'real MOF files']
ASSUMPTIONS = ['planted copies are exact (or stretched <=1%: bound 0.1 A ~ 2*atol) rigid images of the search motif']
STUBS = ['random.choice -> nondeterministic index', 'np.random.random(3) -> one of 3 fixed vectors']
OPTS = {'timeout_ms': 30000}


def instances(tier, seed):
    out = []

    def add(name, **kw):
        kw.setdefault('family', 'place')
        out.append(dict(name=name, **kw))
    add("place:S5:pair->CFO:axis0", struct='S5', repl='pair->CFO', axes=[0], other=(0, 0.3, 0.9), cost=40)
    add("place:S5:pair->FO:axis2", struct='S5', repl='pair->FO', axes=[2], other=(0.8, 0.3, 0), cost=40)
    add("place:S1:chiral4->CHSP:axis0", struct='S1', repl='chiral4->CHSP', axes=[0], other=(0, 0.9, 0.45), cost=20)
    add("place:S1:chiral4->big:axis1", struct='S1', repl='chiral4->big', axes=[1], other=(0.95, 0, 0.45), cost=20)
    add("place:S2:chiral4->CHSP:axis1:triclinic", struct='S2', repl='chiral4->CHSP', axes=[1], other=(0.5, 0, 0.9), cost=40)
    add("place:S2:chiral4->big:axis2:triclinic:replace_all", struct='S2', repl='chiral4->big', axes=[2], other=(0.5, 0.1, 0), replace_all=True, cost=40)
    add("place:S1:chiral4->big:axis0:patterns-carry-their-own-cells", struct='S1', repl='chiral4->big', axes=[0], other=(0, 0.6, 0.45), pattern_cells=True, cost=20)
    add("place:S2:chiral4->CHSP:axis2:triclinic:patterns-carry-their-own-cells", struct='S2', repl='chiral4->CHSP', axes=[2], other=(0.5, 0.3, 0), pattern_cells=True, cost=40)
    add("place:S5:pair->CH-moved-0.05A:axis1", struct='S5', repl='pair->CH-moved-0.05A', axes=[1], other=(0.4, 0, 0.9), cost=40)
    add("place:S3:planar3->CNF:axis1", struct='S3', repl='planar3->CNF', axes=[1], other=(0.9, 0, 0.2), cost=20)
    add("place:S15:planar3->CNF:axis0:triclinic", struct='S15', repl='planar3->CNF', axes=[0], other=(0, 0.6, 0.2), cost=20)
    add("place:S4:collinear3->OCF:axis0", struct='S4', repl='collinear3->OCF', axes=[0], other=(0, 0.5, 0.8), cost=40)
    add("place:S4:collinear3->OCSN:axis2", struct='S4', repl='collinear3->OCSN', axes=[2], other=(0.7, 0.5, 0), cost=40)
    # one-atom replacements away from the anchor atom: they are rotated with the match like any other
    add("place:S5:pair->F-off-anchor:axis1", struct='S5', repl='pair->F-off-anchor', axes=[1], other=(0.3, 0, 0.9), cost=30)
    add("place:S2:chiral4->S-off-anchor:axis0:triclinic", struct='S2', repl='chiral4->S-off-anchor', axes=[0], other=(0, 0.7, 0.2), cost=30)
    # two occurrences whose orientations differ by a fraction of a degree, replacement reaching 4 A from the anchor
    add("place:S32:chiral4->big:nearly-equal-orientations", struct='S32', repl='chiral4->big', axes=[2], other=(0.4, 0.1, 0), cost=30)
    add("place:S6:single->F:axis1", struct='S6', repl='single->F', axes=[1], other=(0.3, 0, 0.4), cost=10)
    add("place:S8:linear-sym3->OCS:axis0:triclinic", struct='S8', repl='linear-sym3->OCS', axes=[0], other=(0, 0.2, 0.7), symmetric=True, cost=40)
    add("place:S12:ch2-sym3->CFF:axis1", struct='S12', repl='ch2-sym3->CFF', axes=[1], other=(0.2, 0, 0.7), symmetric=True, cost=40)
    add("place:S10:trig-sym4->BCl3:axis2:triclinic:stretched", struct='S10', repl='trig-sym4->BCl3', axes=[2], other=(0.2, 0.9, 0), symmetric=True,
        bound=0.1, cost=60)
    # partial replacement: the drawn subset comes in any order (all orders explored), copies have different orientations
    add("place:S2:chiral4->CHSP:fraction0.9:triclinic", struct='S2', repl='chiral4->CHSP', axes=[0], other=(0, 0.2, 0.6), fraction=0.9, pattern_terms=True, cost=60)
    add("place:S4:collinear3->OCSN:fraction0.9", struct='S4', repl='collinear3->OCSN', axes=[1], other=(0.3, 0, 0.8), fraction=0.9, cost=90)
    # replacement reaching further than one cell length from the anchor atom (thin cell)
    # (a one-atom search pattern fixes no orientation and the minimum-image convention does not apply to a 17 A arm in a 6.4 A cell: only
    # the in-cell clause and the bookkeeping are decided here)
    add("place:S6:single->FCl-long:axis0", struct='S6', repl='single->FCl-long', axes=[0], other=(0, 0.3, 0.4), bound=1e9, cost=20)
    # far from the origin, pseudo-symmetric search motif, every random.choice outcome
    add("place:S24:pseudo6->plusS:axis0:far-from-origin", struct='S24', repl='pseudo6->plusS', axes=[0], other=(0, 0.03, 0.04), cost=30)
    add("place:S24t:pseudo6->plusS:axis2:far-from-origin:triclinic", struct='S24t', repl='pseudo6->plusS', axes=[2], other=(0.02, 0.03, 0), cost=30)
    add("place:S28:pseudoaxis5->plusS:axis1:far-from-origin:pseudo-symmetry-exchanging-axis-atoms", struct='S28', repl='pseudoaxis5->plusS', axes=[1], other=(0.02, 0, 0.01), cost=30)
    add("place:S28t:pseudoaxis5->plusS:axis0:far-from-origin:triclinic", struct='S28t', repl='pseudoaxis5->plusS', axes=[0], other=(0, 0.02, 0.03), cost=30)
    # three-step history: replace, replicate, replace again on the supercell
    add("seq:S1:replace-replicate-replace", family='seq', struct='S1', repl='chiral4->CHSP', repl2='chiralCHSP->chiral4', dims=(2, 1, 1), axes=[1], other=(0.4, 0, 0.8), cost=90)
    # joint rigid motion of both patterns
    for k, jp in enumerate(['p3', 'flipy', 'rz90']):
        sname, rp = [('S1', 'chiral4->CHSP'), ('S5', 'pair->CFO'), ('S2', 'chiral4->big')][k]
        add(f"place:{sname}:{rp}:joint-{jp}", struct=sname, repl=rp, axes=[k], other=(0.15, 0.4, 0.85), joint_pose=jp, joint_translate='sym', cost=40)
    # hints other than the default choice
    add("place:S1:chiral4->CHSP:hints(1,2,0)", struct='S1', repl='chiral4->CHSP', axes=[2], other=(0.2, 0.9, 0), axisp1_idx=1, axisp2_idx=2, opoint_idx=0, cost=20)
    add("place:S2:chiral4->big:hints(3,0,1)", struct='S2', repl='chiral4->big', axes=[0], other=(0, 0.9, 0.3), axisp1_idx=3, axisp2_idx=0, opoint_idx=1, cost=40)
    if tier == 'thorough':
        add("place:S5:pair->CFO:fraction0.9:bond", struct='S5', repl='pair->CFO', axes=[1], other=(0.6, 0, 0.2), fraction=0.9, pattern_terms=True, cost=120)
        add("seq:S2:replace-replicate-replace:triclinic", family='seq', struct='S2', repl='chiral4->CHSP', repl2='chiralCHSP->chiral4', dims=(1, 1, 2), axes=[0], other=(0, 0.3, 0.8), cost=200)
        add("place:S1:chiral4->CHSP:corner-window", struct='S1', repl='chiral4->CHSP', axes=[0, 1, 2], other=(0, 0, 0),
            ranges={'0': (0.72, 0.86), '1': (0.64, 0.78), '2': (0.55, 0.72)}, cost=400)
        add("place:S1:chiral4->CHSP:axes01", struct='S1', repl='chiral4->CHSP', axes=[0, 1], other=(0, 0, 0.45), cost=600)
        add("place:S2:chiral4->CHSP:axes12:triclinic", struct='S2', repl='chiral4->CHSP', axes=[1, 2], other=(0.5, 0, 0), cost=900)
        add("place:S5:pair->CFO:axes02", struct='S5', repl='pair->CFO', axes=[0, 2], other=(0, 0.3, 0), cost=900)
        add("place:S7:ch4->CF4:axis0", struct='S7', repl='ch4->CF4', axes=[0], other=(0, 0.4, 0.9), symmetric=True, cost=200)
        for k, jp in enumerate(['p1', 'p2', 'p4', 'p5', 'flipx', 'flipz', 'ry90', 'near-anti']):
            sname, rp = [('S1', 'chiral4->CHSP'), ('S5', 'pair->CFO'), ('S2', 'chiral4->big'), ('S4', 'collinear3->OCSN')][k % 4]
            add(f"place:{sname}:{rp}:joint-{jp}", struct=sname, repl=rp, axes=[k % 3], other=(0.15, 0.4, 0.85), joint_pose=jp, joint_translate='sym', cost=60)
        for sname, rp in [('S9', 'chiral4->CHSP')]:
            pass
    return out


def body(ctx, p):
    R = run_e2e(ctx, p)
    if p.get('family') == 'seq':
        info = check_placement(ctx, p, R, bound=p.get('bound'))
        if info is None:
            return
        sup = R['res'].replicate(tuple(p['dims']))
        R2 = second_replacement(ctx, sup, p['repl2'], np.array(sup.cell, dtype=float))
        ctx.require('second search finds every image of every first-step product', len(R2['occ']) == len(R['occ']) * int(np.prod(p['dims'])),
                    detail=dict(found=len(R2['occ'])))
        info2 = check_placement(ctx, dict(p, repl=p['repl2']), R2, bound=p.get('bound'))
        if info2 is not None:
            check_bystanders(ctx, dict(p, repl=p['repl2']), R2)
        return
    info = check_placement(ctx, p, R, bound=p.get('bound'))
    if info is not None:
        check_bystanders(ctx, p, R)
    check_patterns_untouched(ctx, R)


SELFTESTS = [
    dict(name='cartesian-wrap-by-cell-diagonal', quick=True,
         mutate=[('mofun.mofun', "new_atoms.positions = (new_atoms.positions.dot(np.linalg.inv(cell)) % 1.0).dot(cell)",
                  "new_atoms.positions %= np.diag(cell)")],
         instance=dict(family='place', struct='S2', repl='chiral4->CHSP', axes=[1], other=(0.5, 0, 0.9))),
    dict(name='anchor-on-second-matched-atom', quick=True,
         mutate=[('mofun.mofun', "new_atoms.translate(atom_positions[0])", "new_atoms.translate(atom_positions[1])")],
         instance=dict(family='place', struct='S5', repl='pair->FO', axes=[2], other=(0.8, 0.3, 0))),
    dict(name='rotation-not-applied',
         mutate=[('mofun.mofun', "new_atoms.positions = q.apply(new_atoms.positions)", "new_atoms.positions = new_atoms.positions")],
         instance=dict(family='place', struct='S1', repl='chiral4->CHSP', axes=[0], other=(0, 0.9, 0.45))),
]
