"""C06 - force-field terms and coefficients of the replacement arrive intact.
The real replace_pattern_in_structure -> extend_types / extend / __delitem__ with the find stub.  Symbolic: match
tuples, end points and type ids of the structure's pre-existing terms (inside, outside and across the matched region
arise as solver cases), per-atom data.  Enumerated: replacement patterns with terms of every kind and 2-row coefficient
tables, structure tables present/absent (compatible combinations only), 1-2 matches, a second replacement applied to
the symbolic result of the first."""
from harness.common import *
from harness.replace_f1 import *
from symnp import core

PROPERTY = 'C06'
LEVEL = 'model_checking'
FUNCTIONS = ['mofun.mofun.replace_pattern_in_structure', 'mofun.atoms.Atoms.extend_types', 'mofun.atoms.Atoms.num_*_types',
             'mofun.atoms.Atoms.extend', 'mofun.atoms.Atoms.extend.find_existing_topo', 'mofun.atoms.Atoms.__delitem__',
             'mofun.atoms.Atoms._delete_and_reindex_atom_index_array']
BOUNDS = {'quick': 'N<=5 atoms, <=2 pre-existing terms of one kind with symbolic end points, M<=2 disjoint matches, patterns with '
                   'one term of every kind and 2-row tables, two chained replacements at M=1',
          'thorough': 'N<=6, two kinds of pre-existing terms at once, M<=2, chained replacements with pre-existing terms'}
OUTSIDE = ['incompatible table combinations (excluded by the property)', 'overlapping matches (C07)',
           'text of the written LAMMPS file (C13/C09)']
ASSUMPTIONS = ['find stub contract (C01), matches pairwise disjoint', 'tables hold pairwise distinct texts']
STUBS = ['find_pattern_in_structure -> contract stub', 'random.sample -> nondeterministic subset']


def instances(tier, seed):
    out = []

    def add(name, **kw):
        kw.setdefault('family', 'replace-terms')
        out.append(dict(name=name, **kw))
    allrows = {'bond': 2, 'angle': 1, 'dihedral': 4, 'improper': 5}     # unequal sizes: crossed offsets become visible
    add("terms:CH->full:M1:no-structure-terms", pattern='CH->full', N=3, M=1, s_rows=allrows, cost=5)
    add("terms:CH->full:M2:no-structure-tables", pattern='CH->full', N=4, M=2, s_rows={}, cost=20)
    for kind, ar in KINDS:
        add(f"terms:CH->full:M1:{kind}", pattern='CH->full', N=4, M=1, s_rows=allrows, terms={kind: 2 if ar == 2 else 1}, cost=30)
    add("terms:CH->CF:M2:bondx1", pattern='CH->CF', N=5, M=2, s_rows={'bond': 2}, terms={'bond': 1}, cost=60)
    # replace_all: nothing is retained, every match gets a full copy of the pattern (atoms and terms)
    add("terms:CH->CF:M2:replace_all:bondx1", pattern='CH->CF', N=4, M=2, s_rows={'bond': 2}, terms={'bond': 1}, replace_all=True, cost=60)
    add("terms:CH->full:M2:replace_all:no-structure-tables", pattern='CH->full', N=4, M=2, s_rows={}, replace_all=True, cost=20)
    add("terms:CH->CF-reversed-bond:M1:bondx2", pattern='CH->CF-reversed-bond', N=4, M=1, s_rows={'bond': 2}, terms={'bond': 2}, cost=20)
    add("terms:CHH->CHH:M1:bondx2", pattern='CHH->CHH', N=4, M=1, s_rows={'bond': 2, 'angle': 2}, terms={'bond': 2}, cost=30)
    add("terms:CHH->CHH:M1:anglex1", pattern='CHH->CHH', N=4, M=1, s_rows={'bond': 2, 'angle': 2}, terms={'angle': 1}, cost=30)
    add("terms:CHO->CHN:M1:bondx1", pattern='CHO->CHN', N=4, M=1, s_rows={'bond': 2, 'angle': 2}, terms={'bond': 1}, cost=30)
    add("terms:CH->CF:M1:angle-not-brought-by-pattern", pattern='CH->CF', N=5, M=1, s_rows={'bond': 2, 'angle': 2}, terms={'angle': 1}, cost=30)
    add("terms:CH->CF:M2:angle-not-brought-by-pattern", pattern='CH->CF', N=4, M=2, s_rows={'bond': 2, 'angle': 2}, terms={'angle': 1}, cost=200)
    add("terms:CH->CF:M1:improper-not-brought-by-pattern", pattern='CH->CF', N=5, M=1, s_rows={'bond': 2, 'improper': 3}, terms={'improper': 1}, cost=60)
    # the structure already uses the pattern's type LABELS (a re-parameterised force field, or both label tables defaulting to element
    # symbols) with other masses / pair coefficients: the atom taken over must still resolve to the PATTERN's rows
    add("terms:CH->CF:M1:structure-uses-the-pattern-labels", pattern='CH->CF', N=3, M=1, s_rows={'bond': 2}, terms={'bond': 1}, s_labels=['pC', 'pH', 'pO'], cost=5)
    add("terms:CHH->CHH:M1:structure-uses-the-pattern-labels", pattern='CHH->CHH', N=4, M=1, s_rows={'bond': 2, 'angle': 2}, terms={}, s_labels=['pC', 'pH', 'pO'], cost=10)
    add("terms:CCH->CCF-retyped:M1:common-atom-re-typed-in-place", pattern='CCH->CCF-retyped', N=4, M=1, s_rows={'bond': 2}, terms={'bond': 1}, cost=30)
    add("terms:CH->CH-moved-0.002A:M1:structure-angle-on-the-moved-atom", pattern='CH->CH-moved-0.002A', N=4, M=1, s_rows={'angle': 2}, terms={'angle': 1}, cost=30)
    add("terms:CH->CF:M1:emptied-kind", pattern='CH->CF', N=3, M=1, s_rows={'bond': 2}, terms={}, cost=3)
    add("terms:CH->CF:M1:structure-bonds-no-table-x-pattern-no-bonds", pattern='CH->C', N=3, M=1, s_rows={}, terms={'bond': 1}, cost=3)
    add("terms:chain:CH->CF-then-CH->NOO", pattern='CH->CF', pattern2='CH->NOO', N=4, M=1, s_rows={'bond': 2, 'angle': 2},
        terms={'bond': 1}, cost=60)
    # end to end (real find): partial replacement, the drawn subset in any order, pattern bond between retained and inserted atom
    add("e2e:S2:chiral4->CHSP:fraction0.9:pattern-bond", family='e2e', struct='S2', repl='chiral4->CHSP', axes=[1], other=(0.2, 0, 0.6), fraction=0.9, pattern_terms=True, cost=60)
    # documented workflow: structure from CIF (atom types, no pair-coefficient table) + parameterised pattern
    add("terms:cif-structure:CH->CF:M1", family='cif-structure-no-pair-table', pattern='CH->CF', N=3, M=1, s_pair=False,
        s_rows={}, cost=3)
    if tier == 'thorough':
        add("terms:CH->CF:M2:bondx2", pattern='CH->CF', N=5, M=2, s_rows={'bond': 2}, terms={'bond': 2}, cost=1000)
        add("terms:CH->full:M1:anglex2", pattern='CH->full', N=4, M=1, s_rows=allrows, terms={'angle': 2}, cost=100)
        add("terms:CHO->CHN:M1:bondx2", pattern='CHO->CHN', N=4, M=1, s_rows={'bond': 2, 'angle': 2}, terms={'bond': 2}, cost=100)
        add("terms:CH->full:M1:bond+angle", pattern='CH->full', N=4, M=1, s_rows=allrows, terms={'bond': 1, 'angle': 1}, cost=300)
        add("terms:CH->full:M1:dihedral+improper", pattern='CH->full', N=4, M=1, s_rows=allrows, terms={'dihedral': 1, 'improper': 1}, cost=600)
        add("terms:CHH->CHH:M2:bondx1", pattern='CHH->CHH', N=6, M=2, s_rows={'bond': 2, 'angle': 2}, terms={'bond': 1}, cost=600)
        add("terms:chain:CH->NOO-then-CH->full", pattern='CH->NOO', pattern2='CH->full', N=4, M=1, s_rows=allrows,
            terms={'bond': 1}, cost=300)
        add("terms:chain:CHH->CHH-then-CH->CF", pattern='CHH->CHH', pattern2='CH->CF', N=4, M=1, s_rows={'bond': 2, 'angle': 2},
            terms={'angle': 1}, cost=300)
    return out


def body(ctx, p):
    if p.get('family') == 'e2e':
        from harness import replace_e2e
        R = replace_e2e.run_e2e(ctx, p)
        replace_e2e.check_placement(ctx, p, R)
        return
    R = run_replace(ctx, p)
    with core.nosimplify():
        ok = check_terms(ctx, p, R, label='')
    if p.get('pattern2') and R['result'] is not None and ok:
        st2 = R['result']
        sp2 = spec_from_state(st2)
        p2 = dict(p, pattern=p['pattern2'])
        R2 = run_replace(ctx, p2, given=(st2, sp2), tag='b')
        with core.nosimplify():
            check_terms(ctx, p2, R2, label='2nd: ')


def check_terms(ctx, p, R, label=''):
    if R['raised'] is not None or R['result'] is None:
        ctx.fail(label + 'replacement of disjoint matches returns a structure', detail=dict(raised=R['raised']))
        return False
    res, sp, N = R['result'], R['sp'], R['N']
    sel = R['selected']
    L = layout(R)
    if not ctx.require(label + 'atom count', len(res.positions) == L['n_final'] and lengths_consistent(res),
                       detail=dict(n=len(res.positions), want=L['n_final'])):
        return False
    if len(res.positions) != L['n_final'] or not lengths_consistent(res):
        return False
    rs = spec_from_state(res)
    repl = R['replace']
    rp = spec_from_state(repl) if len(R['repl_d']['el']) else None
    deleted = L['deleted']
    ctx.observe(label + 'n_atoms', len(res.positions))

    def final_idx(x):          # x: structure index (symbolic) of a surviving atom
        return x - COUNT([d < x for d in deleted])

    def is_deleted(x):
        return OR(*[EQ(x, d) for d in deleted])

    # ---- atoms taken over from the pattern carry its label / element / mass / pair coefficients
    if rp is not None:
        T = rs.tables['atom']
        PT = rp.tables['atom']
        for m in sel:
            for k in range(rp.N):
                r = pattern_atom_final(R, L, m, k)
                pt = int(repl.atom_types[k])
                ok = AND(resolves_to(T['labels'], rs.types[r], PT['labels'], pt),
                         resolves_to(T['elements'], rs.types[r], PT['elements'], pt),
                         OR(*[EQ(rs.types[r], v) for v, mass in enumerate(T['masses']) if abs(mass - PT['masses'][pt]) < 1e-9]))
                ctx.require(label + "atom taken over from the pattern carries the pattern's label, element and mass", ok,
                            detail=dict(match=m, atom=k))
                if PT['pair']:
                    ctx.require(label + "atom taken over from the pattern resolves to the pattern's pair coefficients",
                                resolves_to(T['pair'], rs.types[r], PT['pair'], pt), detail=dict(match=m, atom=k, table=T['pair']))
                if k not in R['shared']:
                    ctx.require(label + "inserted atom has the pattern's charge and group",
                                AND(EQ(rs.charges[r], float(repl.charges[k])), EQ(rs.groups[r], int(repl.groups[k]))),
                                detail=dict(match=m, atom=k))
        for key in ('labels', 'elements', 'masses'):
            ctx.require(label + f'structure atom type rows keep their {key}', T[key][:len(sp.tables["atom"][key])] == sp.tables['atom'][key])
        if sp.tables['atom']['pair']:
            ctx.require(label + 'structure pair coefficient rows keep their text',
                        T['pair'][:len(sp.tables['atom']['pair'])] == sp.tables['atom']['pair'])
    # ---- terms
    for kind, ar in KINDS:
        st = sp.terms[kind]
        rows = rs.terms[kind]
        pterms = rp.terms[kind] if rp is not None else []
        ptab = rp.tables[kind] if rp is not None else []
        ctx.require(label + f'structure {kind} coefficient rows keep their text',
                    rs.tables[kind][:len(sp.tables[kind])] == sp.tables[kind], detail=dict(table=rs.tables[kind]))
        # pattern terms at structure level (pre-deletion indices) for supersession: only terms wholly on retained atoms
        plevel = []
        for m in sel:
            for (ends, ty) in pterms:
                if all(int(e) in R['shared'] for e in ends):
                    plevel.append([L['mt'][m][R['shared'][int(e)]] for e in ends])
        keepf = []
        for ends, ty in st:
            touched = OR(*[is_deleted(x) for x in ends])
            sup = OR(*[OR(AND(*[EQ(ends[c], pl[c]) for c in range(ar)]), AND(*[EQ(ends[c], pl[ar - 1 - c]) for c in range(ar)]))
                       for pl in plevel])
            keepf.append(AND(NOT(touched), NOT(sup)))
        nkeep = COUNT(keepf)
        expected_new = [(m, t) for m in sel for t in range(len(pterms))]
        ctx.require(label + f'{kind} count = surviving structure terms + pattern terms per match (no others)',
                    EQ(nkeep + len(expected_new), len(rows)), detail=dict(kind=kind, n=len(rows)))
        ctx.observe(label + f'n_{kind}', len(rows))
        pref = [COUNT(keepf[:j]) for j in range(len(st))]
        for r in range(len(rows)):
            for j, (ends, ty) in enumerate(st):
                isr = AND(keepf[j], EQ(pref[j], r))
                ctx.require(label + f'structure {kind} touching no removed atom survives on the same atoms with its coefficient text',
                            IMPLIES(isr, AND(*[EQ(rows[r][0][c], final_idx(ends[c])) for c in range(ar)], EQ(rows[r][1], ty))),
                            detail=dict(kind=kind, row=r, orig=j))
        for q, (m, t) in enumerate(expected_new):
            ends, ty = pterms[t]
            want = [pattern_atom_final(R, L, m, int(e)) for e in ends]

            def same(rr):
                tyok = resolves_to(rs.tables[kind], rows[rr][1], ptab, int(ty)) if ptab else True
                return AND(*[EQ(rows[rr][0][c], want[c]) for c in range(ar)], tyok)
            cands = list(range(len(rows)))
            cnt = COUNT([same(rr) for rr in cands]) if cands else 0
            ctx.require(label + f"pattern {kind} appears exactly once between the corresponding atoms with the pattern's coefficient text",
                        EQ(cnt, 1) if not st else cnt >= 1, detail=dict(kind=kind, match=m, term=t, want=want))
    return True


SELFTESTS = [
    dict(name='pattern-angle-types-not-offset', quick=True,
         mutate=[('mofun.atoms', "self.angle_types = np.append(self.angle_types, other.angle_types + offsets[2])",
                  "self.angle_types = np.append(self.angle_types, other.angle_types + offsets[1])")],
         instance=dict(family='replace-terms', pattern='CH->full', N=3, M=1, s_rows={'bond': 2, 'angle': 1, 'dihedral': 4, 'improper': 5})),
    dict(name='index-map-ignored-for-terms', quick=True,
         mutate=[('mofun.atoms', "structure_index_map2.update(structure_index_map)", "pass")],
         instance=dict(family='replace-terms', pattern='CH->CF', N=3, M=1, s_rows={'bond': 2})),
    dict(name='no-reverse-supersession',
         mutate=[('mofun.atoms', "return forward_dir + reverse_dir", "return forward_dir")],
         instance=dict(family='replace-terms', pattern='CHH->CHH', N=4, M=1, s_rows={'bond': 2, 'angle': 2}, terms={'bond': 2})),
]
