"""Geometry harness family F2b: concrete rigid motifs (pattern copies in listed poses, mirror images, near-miss decoys,
distractors) in a concrete orthorhombic or triclinic cell; the WHOLE structure is moved by a symbolic translation and
wrapped back into the cell, so every decision that depends on where a copy sits relative to the cell boundary (27-image
window, start-atom restriction, cubic pre-filter, index folding, wrap of inserted atoms) stays symbolic and linear, while
interatomic differences cancel the shift and the rotation code runs on concrete numbers.
The real find_pattern_in_structure / replace_pattern_in_structure run end to end (no stub)."""
import numpy as np
from scipy.spatial.transform import Rotation as SR

from symnp import core
from symnp.core import AND, OR, NOT, IMPLIES, EQ, ITE, Sym, Fraction

MOTIFS = {
    'chiral4': (['C', 'H', 'N', 'O'], [(0, 0, 0), (1.0, 0, 0), (0, 1.2, 0), (0, 0, 1.4)]),
    'chiral5': (['C', 'H', 'N', 'O', 'F'], [(0, 0, 0), (1.0, 0, 0), (0, 1.2, 0), (0, 0, 1.4), (0.9, 1.1, 0.3)]),
    'planar3': (['C', 'N', 'O'], [(0, 0, 0), (1.3, 0, 0), (-0.4, 1.1, 0)]),
    'collinear3': (['O', 'C', 'S'], [(0, 0, 0), (1.2, 0, 0), (2.7, 0, 0)]),
    # site pattern B for planar3: other centre element, the two ligand atoms (same elements as in planar3) pulled in by 0.07 A
    'planar3B': (['Si', 'N', 'O'], [(0, 0, 0), (1.23, 0, 0), (-0.376, 1.034, 0)]),
    # chain fragments exactly one cell edge long (cells chain4 / chain4t): first and last atom are periodic images of one another
    'CuOCu': (['Cu', 'O', 'Cu'], [(0, 0, 0), (2.0, 0.3, 0), (4.0, 0, 0)]),
    'CCC-chain': (['C', 'C', 'C'], [(0, 0, 0), (2.0, 0, 0), (4.0, 0, 0)]),
    'pair': (['C', 'H'], [(0, 0, 0), (1.09, 0, 0)]),
    'single': (['H'], [(0, 0, 0)]),
    'singleF': (['F'], [(0, 0, 0)]),
    'pairCF': (['C', 'F'], [(0, 0, 0), (1.35, 0, 0)]),
    'chiralCHSP': (['C', 'H', 'S', 'P'], [(0, 0, 0), (1.0, 0, 0), (0.3, 1.5, 0.2), (-0.4, -0.2, 1.8)]),
    'linear-sym3': (['O', 'C', 'O'], [(-1.16, 0, 0), (0, 0, 0), (1.16, 0, 0)]),
    'ch4': (['C', 'H', 'H', 'H', 'H'], [(0, 0, 0), (0.63, 0.63, 0.63), (-0.63, -0.63, 0.63), (-0.63, 0.63, -0.63),
                                        (0.63, -0.63, -0.63)]),
    'trig-sym4': (['B', 'F', 'F', 'F'], [(0, 0, 0), (1.3, 0, 0), (-0.65, 1.1258, 0), (-0.65, -1.1258, 0)]),
    'ch2-sym3': (['C', 'H', 'H'], [(0, 0, 0), (0.9, 0.6, 0), (-0.9, 0.6, 0)]),
    # weakly chiral: five coplanar atoms of distinct elements plus one atom 0.07 A out of the plane; its mirror image
    # reproduces every pair distance within 0.05 A but no proper rotation brings it within 0.05 A atom for atom
    'weak-chiral6': (['C', 'N', 'O', 'F', 'S', 'P'], [(0, 0, 0), (1.5, 0, 0), (0.2, 1.6, 0), (-1.4, 0.3, 0), (1.1, -1.3, 0),
                                                      (-0.6, -1.2, 0.07)]),
    # nearly collinear: the middle atom is 0.025 A off the axis
    'near-collinear3': (['O', 'C', 'S'], [(0, 0, 0), (1.2, 0.025, 0), (2.7, 0, 0)]),
    # first pattern atom is a two-letter element whose symbol contains a one-letter element
    'ClCH': (['Cl', 'C', 'H'], [(0, 0, 0), (1.7, 0, 0), (2.2, 0.95, 0)]),
    # long axis exactly along x; used with a copy rotated by exactly 180 degrees about that axis
    'xaxis4': (['S', 'P', 'N', 'O'], [(0, 0, 0), (3.0, 0, 0), (1.0, 0.5, 0.5), (2.0, -0.4, 0.7)]),
    # point set with a two-fold pseudo-symmetry (about the C-F axis) that swaps the two H and is broken only by the ELEMENTS of N and O
    'pseudo6': (['C', 'H', 'H', 'F', 'N', 'O'], [(0, 0, 0), (1.1, 0, 0), (-1.1, 0, 0), (0, 1.3, 0), (0, -0.5, 1.2), (0, -0.5, -1.2)]),
    # chiral only through a 0.6 A out-of-plane atom (a tolerance that grows with the coordinate value accepts the other hand far from the origin)
    'chiralflat4': (['C', 'N', 'O', 'H'], [(0.0, 1.5, 0.0), (2.0, 0.0, 0.0), (-2.0, 0.0, 0.0), (0.3, 0.4, 0.6)]),
    'chiralflat4F': (['C', 'N', 'O', 'F'], [(0.0, 1.5, 0.0), (2.0, 0.0, 0.0), (-2.0, 0.0, 0.0), (0.3, 0.4, 0.6)]),
    # two-fold pseudo-symmetry about z that exchanges the two axis atoms (H..H is the longest pair) and is broken only by the elements N / O
    'pseudoaxis5': (['C', 'H', 'H', 'N', 'O'], [(0, 0, 0), (1.5, 0, 0), (-1.5, 0, 0), (0, 1.2, 0.3), (0, -1.2, 0.3)]),
    # first element occurs at two atoms related only by a mirror plane (O, N, F lie in the bisector plane of C-C; no proper symmetry)
    'mirror-pair5': (['C', 'C', 'O', 'N', 'F'], [(0.75, 0, 0), (-0.75, 0, 0), (0, 1.2, 0.3), (0, -0.4, 1.3), (0, -1.0, -0.8)]),
    # three H interchangeable with respect to the C listed before them; the later O and H tell them apart
    'methanol6': (['C', 'H', 'H', 'H', 'O', 'H'], [(0, 0, 0), (-0.36, 1.03, 0), (-0.36, -0.51, 0.89), (-0.36, -0.51, -0.89), (1.43, 0, 0), (1.75, -0.45, 0.78)]),
    # chiral through its fourth atom only, which sits exactly HALF A CELL EDGE (cell 'ohalf': c = 6) above the plane of the other three: the
    # periodic image of that atom one cell below is at the mirror-image position
    'halfcell4': (['C', 'N', 'O', 'H'], [(0, 0, 0), (5.0, 0, 0), (2.0, 3.5, 0), (2.0, 0, 3.0)]),    # longest pair and farthest-from-axis atom lie IN the plane
    'CFH': (['C', 'F', 'H'], [(0, 0, 0), (1.35, 0, 0), (-0.4, 0.9, 0.45)]),
    'near-collinear4': (['O', 'C', 'S', 'N'], [(0, 0, 0), (1.2, 0.025, 0), (2.7, 0, 0), (3.9, 0.0, 0.01)]),
}

CELLS = {
    'o1': [[10., 0, 0], [0, 11., 0], [0, 0, 12.]],
    'o2': [[7.5, 0, 0], [0, 13., 0], [0, 0, 8.25]],
    'o3': [[6.4, 0, 0], [0, 6.4, 0], [0, 0, 6.4]],
    't1': [[10., 0, 0], [3., 9., 0], [-2., 1.5, 8.]],
    't2': [[10., 0, 0], [-4., 9., 0], [2., -3., 8.]],
    't3': [[10., 0, 0], [-4., 9., 0], [-2., -3., 8.]],
    't4': [[9., 0, 0], [2.5, 9.5, 0], [1.0, 2.0, 10.]],
}
_RM = SR.from_euler('xyz', [0.4, -0.9, 1.3]).as_matrix()
CELLS['tr'] = (np.array(CELLS['t1']) @ _RM.T).tolist()      # t1 in an arbitrary orientation
CELLS['big'] = [[60., 0, 0], [0, 61., 0], [0, 0, 62.]]
CELLS['bigt'] = [[60., 0, 0], [-14., 58., 0], [9., -11., 55.]]
CELLS['t5'] = [[10., 0, 0], [8., 6., 0], [1.5, -2., 9.]]      # strongly tilted: 37 degrees between a and b, perpendicular height / |b| = 0.59
CELLS['chain4'] = [[4.0, 0, 0], [0, 10., 0], [0, 0, 10.]]       # as long as the chain patterns below: an occurrence holds an atom AND its own image
CELLS['chain4t'] = [[4.0, 0, 0], [1.0, 10., 0], [0.5, -1.0, 10.]]
CELLS['ohalf'] = [[12., 0, 0], [0, 12., 0], [0, 0, 6.]]
CELLS['orot'] = [[6.0, 8.0, 0.0], [-8.8, 6.6, 0.0], [0.0, 0.0, 12.0]]     # mutually perpendicular vectors (10, 11, 12) NOT aligned with x, y, z

POSES = {
    'id': [0, 0, 0], 'p1': [0.3, 1.1, -0.7], 'p2': [1.0, -0.4, 0.2], 'p3': [-2.1, 0.5, 2.6], 'p4': [0.05, 3.0, -1.2],
    'p3t': [-2.098, 0.4985, 2.601],     # p3t: 0.13 degrees away from p3 (a slightly distorted framework)
    'p5': [2.2, 2.2, 0.9], 'flipx': [np.pi, 0, 0], 'flipz': [0, 0, np.pi], 'flipy': [0, np.pi, 0],
    'rz90': [0, 0, np.pi / 2], 'ry90': [0, np.pi / 2, 0], 'rz-90': [0, 0, -np.pi / 2], 'ry-90': [0, -np.pi / 2, 0], 'near-par': [0.0, 0.0, 2e-4], 'near-anti': [0, 0, np.pi - 2e-4],
}


def _x_to(v):
    v = np.array(v, dtype=float) / np.linalg.norm(v)
    x = np.array([1.0, 0, 0])
    ax = np.cross(x, v)
    ang = np.arccos(np.clip(np.dot(x, v), -1, 1))
    return SR.from_rotvec(ax / np.linalg.norm(ax) * ang)


SPECIAL_POSES = {'diag111': _x_to((1, 1, 1)), 'antidiag111': _x_to((-1, -1, -1)), 'diag1-11': _x_to((1, -1, 1)), 'antidiag1-11': _x_to((-1, 1, -1))}


def pose(name):
    if isinstance(name, str) and name in SPECIAL_POSES:
        return SPECIAL_POSES[name]
    if isinstance(name, str):
        return SR.from_euler('xyz', POSES[name])
    return SR.from_euler('xyz', list(name))


def seeded_pose(seed, k):
    rng = np.random.default_rng(1000 * seed + k)
    return SR.from_rotvec(rng.normal(size=3) * rng.uniform(0.3, 3.0))


def build_clusters(spec):
    """spec: list of dicts(motif=.., pose=.., at=(x,y,z), kind='copy'|'mirror'|'nearmiss'|'distractor'|'raw', ...)
    returns elements, positions (unwrapped, concrete), groups: list of (kind, index list)"""
    els, pos, groups = [], [], []
    for c in spec:
        kind = c.get('kind', 'copy')
        if kind == 'raw':
            e, p = list(c['el']), np.array(c['pos'], dtype=float)
            if 'pose' in c:
                p = pose(c['pose']).apply(p) + np.array(c.get('at', (0, 0, 0)), dtype=float)
        else:
            e, p = MOTIFS[c['motif']]
            e, p = list(e), np.array(p, dtype=float)
            if kind == 'mirror':
                p = p * np.array([1, 1, -1.0])
            if kind == 'nearmiss':
                p = p.copy()
                p[c.get('atom', len(p) - 1)] += np.array(c.get('by', (0, 0.15, 0)))
            if kind == 'stretch':
                p = p * (1.0 + c.get('factor', 0.004))
            r = pose(c.get('pose', 'id')) if not isinstance(c.get('pose'), SR) else c['pose']
            p = r.apply(p) + np.array(c['at'], dtype=float)
        base = len(els)
        els += e
        pos += [list(x) for x in p]
        groups.append((kind, list(range(base, base + len(e)))))
    return els, np.array(pos, dtype=float), groups


def wrap_concrete(pos, cell):
    cell = np.array(cell, dtype=float)
    f = pos.dot(np.linalg.inv(cell))
    f = f % 1.0
    f[np.isclose(f, 1.0)] = 0.0
    return f


def place(ctx, pos, cell, shift):
    """move the whole structure by a (partly symbolic) translation along lattice directions and wrap into the cell.
    shift: list of 3 entries: a number (concrete fractional shift in [0,1)) or a Sym/float from ctx.real (fraction of the
    lattice vector, in [0,1)).  Returns positions as list of rows (symbolic in sym mode)."""
    cell = np.array(cell, dtype=float)
    f0 = wrap_concrete(pos, cell)
    rows = []
    for fr in f0:
        g = []
        for k in range(3):
            v = float(fr[k]) + shift[k]
            if v >= 1.0:        # forks when the shift is symbolic: the per-atom wrap decision
                v = v - 1.0
            g.append(v)
        rows.append([sum(g[k] * float(cell[k][c]) for k in range(3)) for c in range(3)])
    return rows


def make_structure(ctx, els, rows, cell, perm=None):
    Atoms = ctx.ms.Atoms
    n = len(els)
    order = list(range(n)) if perm is None else list(perm)
    st = Atoms(elements=[els[i] for i in order], positions=np.zeros((n, 3)), cell=np.array(cell, dtype=float))
    if ctx.sym:
        st.positions = np.array([rows[i] for i in order], dtype=object)
    else:
        st.positions = np.array([rows[i] for i in order], dtype=float)
    return st, order


def make_pattern(ctx, motif, rigid=None, translate=None, elements=None, positions=None):
    Atoms = ctx.ms.Atoms
    if positions is None:
        e, p = MOTIFS[motif]
        p = np.array(p, dtype=float)
    else:
        e, p = elements, np.array(positions, dtype=float)
    if rigid is not None:
        p = pose(rigid).apply(p)
    pat = Atoms(elements=list(e), positions=p.copy())
    if translate is not None:
        pat.positions = pat.positions.astype(object) if ctx.sym else pat.positions
        pat.positions = pat.positions + np.array(translate, dtype=object if ctx.sym else float)
    elif ctx.sym:
        pat.positions = pat.positions.astype(object)
    return pat


def fl(x, tol=1e-9):
    """concrete float of a value that is constant (to within tol: inexact inverse cell matrices leave 1e-16*t residues) on
    the whole region of the current path; raises Unsupported otherwise"""
    if isinstance(x, Sym):
        v = core.ENGINE.approx_value(x.e, tol)
        if v is None:
            raise core.Unsupported(f"value is not constant on the path region: {x.e}")
        return float(v)
    return float(x)


def lattice_offsets(cell):
    cell = np.array(cell, dtype=float)
    return [i * cell[0] + j * cell[1] + k * cell[2] for i in (-1, 0, 1) for j in (-1, 0, 1) for k in (-1, 0, 1)]


def perp_widths(cell):
    cell = np.array(cell, dtype=float)
    vol = abs(np.linalg.det(cell))
    return [vol / np.linalg.norm(np.cross(cell[(i + 1) % 3], cell[(i + 2) % 3])) for i in range(3)]


def check_match_geometry(ctx, st, pat_pos0, idx, mpos, quat, atol, cell, label=''):
    """C01 per-match oracle: positions are stored positions plus lattice vectors; the returned rotation (with a suitable
    translation) carries the pattern onto them within atol.  pat_pos0: concrete pattern coordinates (floats)."""
    offs = lattice_offsets(cell)
    n = len(idx)
    ok_lat = True
    rel = []
    for k in range(n):
        d = [mpos[k][c] - st.positions[idx[k]][c] for c in range(3)]
        try:
            dv = np.array([fl(x) for x in d])
        except core.Unsupported:
            ctx.fail(label + 'returned position minus stored position is a constant lattice vector', detail=dict(atom=k))
            return
        ok_lat = ok_lat and any(np.allclose(dv, o, atol=1e-7) for o in offs)
        rel.append(np.array([fl(mpos[k][c] - mpos[0][c]) for c in range(3)]))
    ctx.require(label + 'every returned position is the stored position plus a lattice vector', ok_lat)
    r = quat.r if hasattr(quat, 'r') else quat
    if not hasattr(r, 'apply'):
        r = SR.from_quat(np.array(r, dtype=float))
    pp = np.array(pat_pos0, dtype=float)
    rot = r.apply(pp - pp[0])
    if rot.ndim == 1:
        rot = rot.reshape(1, 3)
    # "with a suitable translation": anchor the rotated pattern on any one matched atom (the code anchors on its first axis
    # point, which the oracle does not know); all other atoms must then be within atol (+ numpy's rtol*|b| term)
    best = None
    for a in range(n):
        dev = 0.0
        for k in range(n):
            dev = max(dev, float(np.max(np.abs((rel[k] - rel[a]) - (rot[k] - rot[a])))))
        best = dev if best is None else min(best, dev)
    det = float(np.linalg.det(r.as_matrix()))
    ctx.require(label + 'returned rotation is proper', abs(det - 1.0) < 1e-9)
    ctx.require(label + 'returned rotation carries the pattern onto the returned positions within the tolerance',
                best <= atol + 5e-4, detail=dict(max_dev=best))
    return best
