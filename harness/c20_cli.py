"""C20 - the command line does exactly load, replicate, find/replace, save.
Data-flow check of the function under the click decorators (mofun_cli.callback) with SYMBOLIC option values: Atoms, find_pattern_in_structure,
replace_pattern_in_structure and ase.io are recording stand-ins that return tagged objects, so the property becomes a statement about
the recorded call sequence and the TERMS passed: a dropped or crossed wire is a satisfiable disequality between two symbols even
where library defaults coincide.  The declared click options are compared with the documented list; two end-to-end runs through
click's CliRunner on real files compare the written file with the API sequence."""
import io
import os
import pathlib
import tempfile
import types

from harness.common import *
from symnp import core

PROPERTY = 'C20'
LEVEL = 'model_checking'
FUNCTIONS = ['mofun.cli.mofun_cli.mofun_cli (callback)', 'mofun.cli.mofun_cli.assign_pair_params_to_structure', 'click option declarations (static)']
BOUNDS = {'quick': 'symbolic atol, replace fraction, mic (reals), three hints (ints or None), three replication factors, symbolic cell widths; every '
                   'combination of {find given, replace given, replicate given, mic given, pp, charge file, extract-uc, dump}; suffix dispatch for '
                   '.cif/.lmpdat/.cml/.mol/other; the replace step raising the library overlap error; 2 end-to-end CliRunner runs on generated files',
          'thorough': 'as quick (the space of option combinations is covered in quick)'}
OUTSIDE = ["click's argv parsing (only the declared options are compared with the documented list)", 'the file formats themselves (C13, C15, C16)',
           'random seeds (the library calls are stand-ins here; C03/C04 cover the generators)']
ASSUMPTIONS = ['the stand-in Atoms has the attribute set of mofun.Atoms (so --framework-element meets the same AttributeError as with the real class)']
STUBS = ['mofun.Atoms, find_pattern_in_structure, replace_pattern_in_structure, ase.io.read -> recording stand-ins returning tagged objects']

DOCUMENTED = {  # option -> (parameter name, type name, default, nargs)
    '--find': ('find_path', 'path', None, 1), '--replace': ('replace_path', 'path', None, 1), '--replace-fraction': ('replace_fraction', 'float', 1.0, 1),
    '--atol': ('atol', 'float', 5e-2, 1), '--axisp1-idx': ('axisp1_idx', 'integer', None, 1), '--axisp2-idx': ('axisp2_idx', 'integer', None, 1),
    '--opoint-idx': ('opoint_idx', 'integer', None, 1), '--dumppath': ('dumppath', 'path', None, 1), '--extract-uc': ('extract_uc_path', 'path', None, 1),
    '--chargefile': ('chargefile', 'filename', None, 1), '--replicate': ('replicate', 'integer', None, 3), '--mic': ('mic', 'float', None, 1),
    '--framework-element': ('framework_element', 'text', None, 1), '--pp': ('pp', 'boolean', False, 1),
}


def instances(tier, seed):
    out = [dict(name='options-declared', family='static', cost=1), dict(name='end-to-end', family='e2e', cost=10)]
    k = 0
    for find in (0, 1):
        for repl in (0, 1):
            for rep in (0, 1):
                for mic in (0, 1):
                    for extra in (0, 1, 2, 3):
                        k += 1
                        out.append(dict(name=f"flow:find{find}:replace{repl}:replicate{rep}:mic{mic}:extra{extra}", family='flow', find=find, repl=repl, rep=rep,
                                        mic=mic, pp=(extra == 1), charge=(extra == 2), euc=(extra == 3), dump=(extra == 3 and find == 1),
                                        insuf=['.cif', '.lmpdat', '.cml', '.xyz'][k % 4], outsuf=['.lmpdat', '.cif', '.mol', '.pdb'][(k // 2) % 4], cost=2))
    out.append(dict(name='flow:replace:library-raises-its-overlap-error', family='flow', find=1, repl=1, rep=0, mic=0, insuf='.cif', outsuf='.lmpdat', replace_raises=True, cost=2))
    out.append(dict(name='flow:replace:replicate:library-raises-its-overlap-error', family='flow', find=1, repl=1, rep=1, mic=0, insuf='.lmpdat', outsuf='.cif', replace_raises=True, cost=2))
    out.append(dict(name='flow:framework-element', family='framework-element', find=0, repl=0, rep=0, mic=0, fw='C', insuf='.cif', outsuf='.lmpdat', cost=1))
    return out


class Rec:
    def __init__(self):
        self.calls = []


def make_stubs(ctx, rec, widths, ortho):
    class FakeAtoms:
        n_made = 0

        def __init__(self, tag, cell=None):
            object.__setattr__(self, 'tag', tag)
            object.__setattr__(self, 'sets', {})
            c = np.zeros((3, 3), dtype=object)
            for i in range(3):
                c[i, i] = cell[i] if cell is not None else widths[i]
            object.__setattr__(self, '_cell', c)
            object.__setattr__(self, 'positions', [0, 1])
            object.__setattr__(self, 'atom_type_elements', ['S', 'Zr', 'B', 'I'])

        @classmethod
        def load(cls, path):
            rec.calls.append(('load', str(path)))
            return cls(('loaded', str(path)))

        @classmethod
        def from_ase_atoms(cls, a):
            rec.calls.append(('from_ase', a))
            return cls(('from_ase', a))

        @property
        def cell(self):
            return self._cell

        @cell.setter
        def cell(self, v):
            rec.calls.append(('set_cell', self.tag, getattr(v, 'tag', 'cell-of-other') if not isinstance(v, np.ndarray) else 'cell-array'))
            object.__setattr__(self, '_cell', v)

        def __setattr__(self, k, v):
            if k == 'cell':
                return type(self).cell.fset(self, v)
            rec.calls.append(('set', self.tag, k, v if not isinstance(v, np.ndarray) else [x for x in v]))
            object.__setattr__(self, k, v)

        def cell_is_orthorhombic(self):
            return ortho

        def replicate(self, dims):
            dims = tuple(dims)
            rec.calls.append(('replicate', self.tag, dims))
            return FakeAtoms(('replicated', self.tag, dims), cell=[self._cell[i][i] * dims[i] for i in range(3)])

        def save(self, path):
            rec.calls.append(('save', self.tag, str(path)))

        def to_ase(self):
            rec.calls.append(('to_ase', self.tag))
            return types.SimpleNamespace(symbols=None, set_pbc=lambda v: rec.calls.append(('set_pbc', v)),
                                         write=lambda p: rec.calls.append(('ase_write', self.tag, str(p))))

    def find_stub(atoms, pattern, **kw):
        rec.calls.append(('find', atoms.tag, pattern.tag, kw))
        return [(0, 1), (2, 3)]

    def replace_stub(atoms, search, replace, **kw):
        rec.calls.append(('replace', atoms.tag, search.tag, replace.tag, kw))
        if rec.replace_raises is not None and not kw.get('ignore_atoms_should_not_be_deleted_twice'):
            raise rec.replace_raises()       # what the library does when two matches would remove the same atom
        return FakeAtoms(('replaced', atoms.tag))

    aseio = types.SimpleNamespace(read=lambda p, **kw: (rec.calls.append(('ase_read', str(p), kw)) or types.SimpleNamespace(positions=[7, 8], tagp=str(p))))
    return FakeAtoms, find_stub, replace_stub, aseio


def body(ctx, p):
    fam = p['family']
    CLI = ctx.ms.cli
    cmd = CLI.mofun_cli
    if fam == 'static':
        got = {}
        for prm in cmd.params:
            if prm.param_type_name == 'option':
                longs = [o for o in prm.opts if o.startswith('--')]
                got[longs[0]] = (prm.name, prm.type.name.lower(), prm.default if not callable(prm.default) else None, prm.nargs)
        ok = True
        bad = []
        for o, (name, ty, dflt, nargs) in DOCUMENTED.items():
            g = got.get(o)
            d_ok = g is not None and (g[2] == dflt or (dflt is None and g[2] in (None, ())) or (str(g[2]) == 'Sentinel.UNSET' and dflt is None))
            if g is None or g[0] != name or g[1] != ty or g[3] != nargs or not d_ok:
                bad.append((o, g))
        args = [prm.name for prm in cmd.params if prm.param_type_name == 'argument']
        ctx.observe('n_options', len(got))
        ctx.require('every documented option is declared with its parameter name, type, default and arity; two path arguments', not bad and args == ['inputpath', 'outputpath'],
                    detail=dict(bad=str(bad)[:300], args=args))
        return
    if fam == 'e2e':
        return e2e_body(ctx, p)
    rec = Rec()
    rec.replace_raises = ctx.ms.mofun.AtomsShouldNotBeDeletedTwice if p.get('replace_raises') else None
    widths = [ctx.real(f"w{k}", 4, 30) for k in range(3)]
    ortho = True if not p.get('mic') else bool(ctx.choose(2, 'ortho'))
    FakeAtoms, find_stub, replace_stub, aseio = make_stubs(ctx, rec, widths, ortho)
    atol = ctx.real('atol', 0.001, 1)
    frac = ctx.real('fraction', 0, 1, hi_strict=False)
    hints = []
    for h in ('ap1', 'ap2', 'op'):
        if ctx.choose(2, h + '-given'):
            hints.append(ctx.int(h, 0, 7))
        else:
            hints.append(None)
    if p.get('rep'):
        # symbolic factors when they are only forwarded; concrete ones when the cell widths are scaled by them and then divided
        reps = (2, 1, 3) if p.get('mic') else tuple(ctx.int(f"r{k}", 1, 4) for k in range(3))
    else:
        reps = None
    mic = ctx.real('mic', 1, 6) if p.get('mic') else None
    inp = pathlib.Path('in' + p['insuf'])
    outp = pathlib.Path('out' + p['outsuf'])
    charge = io.StringIO("0.5\n\n-0.5\n") if p.get('charge') else None
    saved = {k: getattr(CLI, k) for k in ('Atoms', 'find_pattern_in_structure', 'replace_pattern_in_structure', 'ase')}
    CLI.Atoms, CLI.find_pattern_in_structure, CLI.replace_pattern_in_structure = FakeAtoms, find_stub, replace_stub
    CLI.ase = types.SimpleNamespace(io=aseio)
    err = None
    try:
        try:
            cmd.callback(inp, outp, find_path=pathlib.Path('find.cml') if p.get('find') else None,
                         replace_path=pathlib.Path('repl.cml') if p.get('repl') else None, atol=atol, replace_fraction=frac,
                         axisp1_idx=hints[0], axisp2_idx=hints[1], opoint_idx=hints[2], dumppath=pathlib.Path('d.dump') if p.get('dump') else None,
                         extract_uc_path=pathlib.Path('uc.cif') if p.get('euc') else None, chargefile=charge, replicate=reps, mic=mic,
                         framework_element=p.get('fw'), pp=bool(p.get('pp')))
        except AttributeError as ex:
            err = str(ex)
        except ctx.ms.mofun.AtomsShouldNotBeDeletedTwice:
            err = 'overlap-error-propagated'
    finally:
        for k, v in saved.items():
            setattr(CLI, k, v)
    calls = rec.calls
    ctx.observe('n_calls', len(calls))
    if p.get('replace_raises'):
        # the same files and options through the API raise the overlap error and produce no structure: so must the command line
        nrep = [c for c in calls if c[0] == 'replace']
        ctx.require('an overlap error of the library reaches the caller of the command line: nothing is written, the replacement is not retried with other options',
                    err == 'overlap-error-propagated' and not any(c[0] in ('save', 'ase_write') for c in calls) and len(nrep) == 1
                    and not nrep[0][4].get('ignore_atoms_should_not_be_deleted_twice'), detail=dict(error=err, calls=[c[0] for c in calls]))
        return
    if fam == 'framework-element':
        ctx.require('--framework-element reaches the operation it names (no AttributeError)', err is None, detail=dict(error=err))
        return
    ctx.require('no exception', err is None, detail=dict(error=err))
    if err is not None:
        return
    with core.nosimplify():
        check_flow(ctx, p, calls, inp, outp, atol, frac, hints, reps, mic, widths, ortho)


def check_flow(ctx, p, calls, inp, outp, atol, frac, hints, reps, mic, widths, ortho):
    names = [c[0] for c in calls]
    # 1. load
    if p['insuf'] in ('.lmpdat', '.cml', '.cif'):
        ok = calls[0] == ('load', str(inp))
        cur = ('loaded', str(inp))
    else:
        ok = calls[0][0] == 'ase_read' and calls[0][1] == str(inp) and calls[1][0] == 'from_ase'
        cur = calls[1][1:] and ('from_ase', calls[1][1])
    ctx.require('the input is loaded first (mofun reader for .cif/.lmpdat/.cml, ASE otherwise)', ok, detail=dict(first=str(calls[:2])[:200]))
    if not ok:
        return
    order = [n for n in names if n in ('replicate', 'find', 'replace', 'save', 'ase_write')]
    expect = (['replicate'] if reps is not None else []) + (['replicate'] if (mic is not None and ortho) else []) + \
             (['replace'] if (p.get('find') and p.get('repl')) else (['find'] if p.get('find') else [])) + \
             (['save'] if p['outsuf'] in ('.lmpdat', '.mol', '.cif') else ['ase_write'])
    ctx.require('operations run in the order load, replicate, mic-replicate, find/replace, save', order == expect, detail=dict(order=order, expect=expect))
    if order != expect:
        return
    it = iter([c for c in calls if c[0] in ('replicate', 'find', 'replace', 'save', 'ase_write')])
    if p.get('euc'):
        ctx.require('--extract-uc loads the other file and takes its cell', ('load', 'uc.cif') in calls and any(c[0] == 'set_cell' and c[1] == cur for c in calls))
    if p.get('dump'):
        ctx.require('--dumppath positions replace the loaded positions', any(c[0] == 'set' and c[1] == cur and c[2] == 'positions' and c[3] == [7, 8] for c in calls),
                    detail=dict(calls=str(calls)[:300]))
    if p.get('charge'):
        ctx.require('--chargefile charges (blank lines skipped) are set on the structure',
                    any(c[0] == 'set' and c[1] == cur and c[2] == 'charges' and [float(x) for x in c[3]] == [0.5, -0.5] for c in calls))
    if reps is not None:
        c = next(it)
        ctx.require('--replicate factors reach Atoms.replicate of the loaded structure', AND(c[1] == cur, *[EQ(c[2][k], reps[k]) for k in range(3)]), detail=dict(call=str(c)))
        cur = ('replicated', c[1], c[2])
        w_now = [widths[k] * reps[k] for k in range(3)]
    else:
        w_now = list(widths)
    if mic is not None and ortho:
        c = next(it)
        cs = [c[1] == cur]
        for k in range(3):
            r = c[2][k]
            cs.append(AND((r - 1) * w_now[k] < 2 * mic, 2 * mic <= r * w_now[k]))          # r = ceil(2*mic / width)
        ctx.require('--mic replicates the (already replicated) structure ceil(2*mic/width) times per axis', AND(*cs), detail=dict(call=str(c)))
        cur = ('replicated', c[1], c[2])
    if mic is not None and not ortho:
        ctx.require('--mic on a non-orthorhombic cell replicates nothing', names.count('replicate') == (1 if reps is not None else 0))
    if p.get('pp'):
        ctx.require('--pp assigns pair coefficients and labels to the structure before find/replace',
                    any(c[0] == 'set' and c[1] == cur and c[2] == 'pair_coeffs' and len(c[3]) == 4 for c in calls)
                    and any(c[0] == 'set' and c[1] == cur and c[2] == 'atom_type_labels' for c in calls))
        labs = [c[3] for c in calls if c[0] == 'set' and c[2] == 'atom_type_labels']
        ctx.require("--pp labels every type with a UFF key of ITS OWN element (element symbol padded with '_')",
                    bool(labs) and [l[0:2].strip('_') for l in labs[0]] == ['S', 'Zr', 'B', 'I'], detail=dict(labels=str(labs[:1])))
    else:
        ctx.require('pair coefficients untouched without --pp', not any(c[0] == 'set' and c[2] == 'pair_coeffs' for c in calls))
    if p.get('find') and p.get('repl'):
        c = next(it)
        kw = c[4]
        hk = ('axisp1_idx', 'axisp2_idx', 'opoint_idx')
        hint_ok = AND(*[(kw.get(k) is None) if hints[i] is None else (kw.get(k) is not None and EQ(kw.get(k), hints[i])) for i, k in enumerate(hk)])
        ctx.require('replace is called on the current structure with the two loaded patterns',
                    c[1] == cur and c[2] == ('loaded', 'find.cml') and c[3] == ('loaded', 'repl.cml'), detail=dict(call=str(c)[:200]))
        ctx.require('--atol reaches the replacement', 'atol' in kw and EQ(kw['atol'], atol))
        ctx.require('--replace-fraction reaches the replacement', 'replace_fraction' in kw and EQ(kw['replace_fraction'], frac))
        ctx.require('axis / orientation hints reach the replacement (including index 0)', hint_ok, detail=dict(kw=str(kw)[:200]))
        cur = ('replaced', cur)
    elif p.get('find'):
        c = next(it)
        ctx.require('find-only: the search runs on the current structure with the loaded pattern and the given tolerance',
                    AND(c[1] == cur, c[2] == ('loaded', 'find.cml'), 'atol' in c[3] and EQ(c[3]['atol'], atol)), detail=dict(call=str(c)[:200]))
    c = next(it)
    if c[0] == 'save':
        ctx.require('the object the last step returned is saved to the output path (unmodified structure for find-only)', c[1] == cur and c[2] == str(outp),
                    detail=dict(call=str(c)[:200], cur=str(cur)[:200]))
    else:
        ctx.require('other suffixes are written through ASE from the object the last step returned', c[1] == cur and c[2] == str(outp))


def e2e_body(ctx, p):
    """two concrete runs through click's CliRunner on generated files, compared with the API sequence"""
    import random
    import numpy
    from click.testing import CliRunner
    Atoms = ctx.ms.Atoms
    Mm = ctx.ms.mofun
    CLI = ctx.ms.cli
    d = tempfile.mkdtemp()
    try:
        st = Atoms(elements='CHCHOO', positions=[[1, 1, 1], [2.09, 1, 1], [5, 5, 5], [5, 6.09, 5], [3, 7, 2], [7, 2, 6]], cell=np.diag([8., 9., 10.]),
                   charges=[0.1, 0.2, 0.1, 0.2, -0.3, -0.3])
        st.save(os.path.join(d, 'in.lmpdat'))
        Atoms(elements='CH', positions=[[0, 0, 0], [1.09, 0, 0]]).save(os.path.join(d, 'f.lmpdat'))
        Atoms(elements='CF', positions=[[0, 0, 0], [1.35, 0, 0]]).save(os.path.join(d, 'r.lmpdat'))
        runner_ = CliRunner()
        argv = [os.path.join(d, 'in.lmpdat'), os.path.join(d, 'out.lmpdat'), '-f', os.path.join(d, 'f.lmpdat'), '-r', os.path.join(d, 'r.lmpdat'),
                '--replicate', '2', '1', '1', '--atol', '0.07', '-ap1', '0', '-ap2', '1']
        random.seed(5)
        numpy.random.seed(5)
        res = runner_.invoke(CLI.mofun_cli, argv)
        ok = res.exit_code == 0 and os.path.exists(os.path.join(d, 'out.lmpdat'))
        ctx.require('CLI run succeeds', ok, detail=dict(out=str(res.output)[-300:], exc=str(res.exception)))
        if not ok:
            return
        random.seed(5)
        numpy.random.seed(5)
        a = Atoms.load(os.path.join(d, 'in.lmpdat')).replicate((2, 1, 1))
        b = Mm.replace_pattern_in_structure(a, Atoms.load(os.path.join(d, 'f.lmpdat')), Atoms.load(os.path.join(d, 'r.lmpdat')), atol=0.07, axisp1_idx=0, axisp2_idx=1)
        f = io.StringIO()
        b.save_lmpdat(f)
        ctx.require('CLI output equals load / replicate / replace / save through the API', f.getvalue() == open(os.path.join(d, 'out.lmpdat')).read())
        ctx.observe('atoms', len(b))
        res = runner_.invoke(CLI.mofun_cli, [os.path.join(d, 'in.lmpdat'), os.path.join(d, 'out2.lmpdat'), '-f', os.path.join(d, 'f.lmpdat')])
        f2 = io.StringIO()
        Atoms.load(os.path.join(d, 'in.lmpdat')).save_lmpdat(f2)
        ctx.require('find-only reports the API match count and writes the structure unmodified',
                    res.exit_code == 0 and 'Found 2 instances' in res.output and f2.getvalue() == open(os.path.join(d, 'out2.lmpdat')).read(),
                    detail=dict(out=str(res.output)[-200:]))
    finally:
        import shutil
        shutil.rmtree(d)


SELFTESTS = [
    dict(name='replace-fraction-not-forwarded', quick=True,
         mutate=[('mofun.cli.mofun_cli', "opoint_idx=opoint_idx, replace_fraction=replace_fraction)", "opoint_idx=opoint_idx)")],
         instance=dict(family='flow', find=1, repl=1, rep=0, mic=0, insuf='.cif', outsuf='.lmpdat')),
    dict(name='axis-hints-crossed', quick=True,
         mutate=[('mofun.cli.mofun_cli', "axisp1_idx=axisp1_idx, axisp2_idx=axisp2_idx,", "axisp1_idx=axisp2_idx, axisp2_idx=axisp1_idx,")],
         instance=dict(family='flow', find=1, repl=1, rep=0, mic=0, insuf='.cif', outsuf='.lmpdat')),
    dict(name='find-only-ignores-atol',
         mutate=[('mofun.cli.mofun_cli', "results = find_pattern_in_structure(atoms, search_pattern, atol=atol)", "results = find_pattern_in_structure(atoms, search_pattern)")],
         instance=dict(family='flow', find=1, repl=0, rep=0, mic=0, insuf='.cif', outsuf='.lmpdat')),
]
