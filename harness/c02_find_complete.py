"""C02 - every occurrence is found exactly once, also across periodic boundaries.
(i) the real find_pattern_in_structure end to end on planted structures under a symbolic translation (family F2b);
(ii) the 27-image window _get_positions_from_all_adjacent_unit_cells alone with a fully symbolic atom position."""
from harness.find_runs import *

PROPERTY = 'C02'
LEVEL = 'model_checking'
FUNCTIONS = ['mofun.mofun.find_pattern_in_structure', 'mofun.mofun._get_positions_from_all_adjacent_unit_cells',
             'mofun.mofun.uc_neighbor_offsets', 'mofun.helpers.group_duplicates', 'mofun.helpers.quaternion_from_two_vectors',
             'mofun.helpers.quaternion_from_two_vectors_around_axis', 'mofun.helpers.position_index_farthest_from_axis',
             'mofun.helpers.atoms_of_type', 'mofun.helpers.atoms_by_type_dict']
BOUNDS = {'quick': '12 planted structures (<=12 atoms; 1-3 copies + mirror/near-miss/stretched/distractor decoys; 13 listed poses '
                   'incl. antiparallel and near-(anti)parallel), 3 orthorhombic + 5 triclinic cells (positive, negative, mixed tilt, '
                   'arbitrary orientation), one symbolic fractional shift axis in [0,1) per instance (all face crossings), one edge and one corner crossing with two/three symbolic axes restricted to the crossing window, axis world (all x-coordinates, cell width and tolerance symbolic, 2 atoms), '
                   'symbolic random.choice, one instance with symbolic atol in [0.01,0.2]; window lemma: 1 atom, fully symbolic',
          'thorough': 'as quick plus pairs of symbolic shift axes (edge crossings), symbolic atol on 4 structures, seeded other-axis shifts'}
OUTSIDE = ['poses not in the list (rotations go through arccos/sin/cos: no SMT theory decides them)', 'fully symbolic 3-D coordinates',
           'three simultaneous symbolic shift axes (corner crossings are covered only through concrete other-axis shifts)',
           'cells narrower than pattern diameter + 2*atol', 'the repository MOF files (size)', 'IEEE rounding']
ASSUMPTIONS = ['structure atoms inside the cell (wrapped)', 'np.random.random(3) is not parallel to the search axis (stub contract)',
               'copies are exact or stretched by <=1% (well inside the tolerance); near misses are displaced by >=3*atol']
STUBS = ['random.choice -> element at a nondeterministic index (all explored)', 'np.random.random(3) -> one of 3 fixed vectors']
OPTS = {'timeout_ms': 30000}


def instances(tier, seed):
    out = std_instances(tier, seed)
    out += axis_instances(tier)
    # occurrences holding an atom and its own image (cell edge = pattern length)
    for sname, ax in (('S33', 0), ('S34', 0), ('S34', 1)):
        out.append(dict(name=f"find:{sname}:axis{ax}:occurrence-contains-an-atom-and-its-own-image", family='find', struct=sname, axes=[ax], other=(0.1, 0.3, 0.2), cost=20))
    for cn in (['o1', 't1', 't3', 't5'] if tier == 'quick' else ['o1', 'o2', 't1', 't2', 't3', 't4', 't5', 'tr']):
        out.append(dict(name=f"window:{cn}", family='window', cell=cn, cost=30))
    return out


def body(ctx, p):
    if p['family'] == 'window':
        return window_body(ctx, p)
    if p['family'] == 'axis':
        return axis_body(ctx, p)
    R = run_find(ctx, p)
    check_complete(ctx, R)


def window_body(ctx, p):
    """image m of the single atom is selected iff within L of the home cell along every lattice-plane normal (with slack);
    all 27 images are generated once and index 0 is the home-cell atom"""
    Mm = ctx.ms.mofun
    Atoms = ctx.ms.Atoms
    cell = np.array(CELLS[p['cell']], dtype=float)
    f = [ctx.real(f"f{k}", 0, 1) for k in range(3)]
    L = ctx.real('L', 0.1, 5.0)
    pos = [sum(f[k] * float(cell[k][c]) for k in range(3)) for c in range(3)]
    st = Atoms(elements=['C'], positions=np.zeros((1, 3)), cell=cell)
    st.positions = np.array([pos], dtype=object) if ctx.sym else np.array([pos], dtype=float)
    near_pos, near_types, near_indices, all_pos = Mm._get_positions_from_all_adjacent_unit_cells(st, L)
    ctx.require('27 images generated', len(all_pos) == 27)
    ctx.observe('near', sorted(int(i) for i in near_indices))
    w = perp_widths(cell)
    eps = 1e-9
    seen = []
    with core.nosimplify():
        for i in range(27):
            d = [all_pos[i][c] - pos[c] for c in range(3)]
            dv = np.array([float(x) for x in d])
            m = np.round(dv.dot(np.linalg.inv(cell))).astype(int)
            seen.append(tuple(m))
            fi = [f[k] + int(m[k]) for k in range(3)]
            inside_clear = AND(*[AND(fi[k] * w[k] >= -L + eps, fi[k] * w[k] <= w[k] + L - eps) for k in range(3)])
            outside_clear = OR(*[OR(fi[k] * w[k] < -L - eps, fi[k] * w[k] > w[k] + L + eps) for k in range(3)])
            sel = i in [int(x) for x in near_indices]
            ctx.require('image clearly within L of the home cell is selected', IMPLIES(inside_clear, sel), detail=dict(image=tuple(int(x) for x in m)))
            ctx.require('image clearly farther than L from the home cell is not selected', IMPLIES(outside_clear, not sel), detail=dict(image=tuple(int(x) for x in m)))
    ctx.require('each of the 27 image multipliers occurs once; index 0 is the home cell',
                sorted(seen) == sorted((i, j, k) for i in (-1, 0, 1) for j in (-1, 0, 1) for k in (-1, 0, 1)) and seen[0] == (0, 0, 0))


SELFTESTS = [
    dict(name='window-without-tolerance', quick=True,
         mutate=[('mofun.mofun', "pattern_length = p_ss.max() ** 0.5 + 2 * atol", "pattern_length = (p_ss.max() + 2 * atol) ** 0.5")],
         instance=dict(family='find', struct='S13', axes=[0], other=(0, 0, 0))),
    dict(name='fold-with-wrong-modulus', quick=True,
         mutate=[('mofun.mofun', "key=lambda m: tuple(sorted([near_indices[i] % len(structure) for i in m]))",
                  "key=lambda m: tuple(sorted([near_indices[i] for i in m]))")],
         instance=dict(family='find', struct='S8', axes=[1], other=(0, 0, 0))),
    dict(name='high-side-window-dropped',
         mutate=[('mofun.mofun', "pos[0] >= -distance and pos[0] < distance + cell[0]", "pos[0] >= -distance and pos[0] < cell[0]")],
         instance=dict(family='find', struct='S1', axes=[0], other=(0, 0, 0))),
    dict(name='final-rotation-check-dropped',
         mutate=[('mofun.mofun', "if np.allclose(atom_positions, chk_pattern.positions, atol=atol):", "if True:")],
         instance=dict(family='find', struct='S1', axes=[1], other=(0, 0, 0))),
]
