"""C13 - LAMMPS data files round-trip and mean what the structure says.
The real save_lmpdat -> real io.StringIO -> real load_lmpdat -> save_lmpdat run with symbolic positions, charges, groups, type
ids, term end points/types, cell lengths and tilt factors travelling through ordinary Python strings as placeholder fields
(format model, symnp/fmtmodel.py): only '"lit" % args' at the writing end and float()/int()/np.array(dtype) at the parsing end are
modelled; every other string operation is CPython's own.  Oracle 1: an independent reader written from the LAMMPS read_data
documentation reconstructs the structure from the written text.  Oracle 2: mofun's reader returns the same ids/types/terms
exactly, reals within half a unit of the 6th decimal, coefficient entries token for token.  Oracle 3: a second and third write
of the re-read structure are equal piece by piece (literal text byte for byte, fields by solver equality)."""
import io

from harness.common import *
from symnp import core

PROPERTY = 'C13'
LEVEL = 'model_checking'
FUNCTIONS = ['mofun.atoms.Atoms.save_lmpdat', 'mofun.atoms.Atoms.load_lmpdat', 'mofun.atoms.Atoms.label_atoms', 'mofun.atoms.Atoms.save',
             'mofun.atoms.Atoms.load', 'mofun.helpers.use_or_open', 'mofun.atoms.Atoms.cell_is_orthorhombic', 'mofun.atoms.Atoms.num_*_types']
BOUNDS = {'quick': 'N<=2 atoms, <=1 term per kind (symbolic end points and types), 2 atom types and 1-2 types per term kind, orthorhombic and tilted '
                   '(LAMMPS-oriented) cells with symbolic lengths and tilts, both atom styles, coefficient strings from a list of 8 (with/without one '
                   'trailing comment, leading minus, digits only, slashes, many spaces); |coordinates|<1000, |charge|<10',
          'thorough': 'N<=3 atoms with one term, or two kinds of terms at once on 2 atoms'}
OUTSIDE = ['field-width overflow for |x| >= 10^4 is covered only by a concrete sub-check (two large coordinates)',
           'coefficient strings with two # characters (outside the property)', 'atom styles other than full/atomic', 'IEEE rounding of the 7th decimal']
ASSUMPTIONS = ['cell lengths in (1,100), tilts in (-50,50), LAMMPS orientation (upper triangle zero)',
               'format model: %d of an int field parses back to the same integer; %W.Pf parses back to k/10^P with |k - x*10^P| <= 1/2']
STUBS = ['builtins float/int and np.array(dtype=float|int) inside mofun.atoms recognise placeholder tokens (format model)']
OPTS = {'timeout_ms': 20000}

COEFFS = ['harmonic 1.0 2.0', 'harmonic 3.5 1.1   # C_R N_3', '-1.5 2', '17', 'cosine/periodic 72.5 -1 1   # a/b c', 'fourier 1 2 3 4',
          'lj/cut 0.105   3.43', 'x   # only comment']


def modset_kwargs(p):
    return dict(fmt=True, key='fmt')


def instances(tier, seed):
    out = []

    def add(name, **kw):
        kw.setdefault('family', 'lmpdat')
        out.append(dict(name=name, **kw))
    for style in ('full', 'atomic'):
        add(f"rt:{style}:bond:tilted", style=style, N=2, terms={'bond': 1}, tilt='sym', c0=0, cost=60)
        add(f"rt:{style}:angle+improper:ortho", style=style, N=2, terms={'angle': 1, 'improper': 1}, tilt='zero', c0=2, cost=30)
    add("rt:full:dihedral:tilted", style='full', N=2, terms={'dihedral': 1}, tilt='sym', c0=4, cost=60)
    # two terms of one kind whose (symbolic) atom tuples may coincide: a multi-term torsion / a doubled bond entry is two entries
    add("rt:full:bond-x2:ortho", style='full', N=2, terms={'bond': 2}, tilt='zero', c0=0, cost=60)
    add("rt:atomic:dihedral-x2:ortho", style='atomic', N=2, terms={'dihedral': 2}, tilt='zero', c0=4, cost=90)
    add("rt:full:no-terms-no-coeffs", style='full', N=2, terms={}, tilt='zero', c0=None, cost=10)
    add("rt:full:emptied-kind-with-table", style='full', N=2, terms={}, tilt='zero', c0=1, tables_without_terms=True, cost=10)
    add("rt:atomic:no-cell", style='atomic', N=2, terms={'bond': 1}, tilt=None, c0=6, cost=10)
    add("rt:full:terms-without-coefficient-tables", style='full', N=2, terms={'bond': 1, 'angle': 1}, tilt='zero', c0=None, type_hi=3, cost=30)
    add("rt:full:bond:ortho:bead-model-masses-no-element", style='full', N=2, terms={'bond': 1}, tilt='zero', c0=1, type_table='beads', cost=30)
    add("rt:atomic:no-terms:bead-model-masses-no-element", style='atomic', N=2, terms={}, tilt='zero', c0=None, type_table='beads', cost=10)
    add("rt:full:bond:ortho:history:written-before-with-other-labels", style='full', N=2, terms={'bond': 1}, tilt='zero', c0=0, history='written-before-with-other-labels', cost=30)
    add("rt:full:bond:barely-tilted-cell", style='full', N=2, terms={'bond': 1}, tilt='tiny', c0=0, cost=20)
    add("dispatch:path-and-file", family='dispatch', cost=3)
    add("wide-fields", family='wide', cost=2)
    add("many-types", family='many', cost=2)
    if tier == 'thorough':
        add("rt:full:bond:N3:tilted", style='full', N=3, terms={'bond': 1}, tilt='sym', c0=3, cost=900)
        add("rt:atomic:angle:N3", style='atomic', N=3, terms={'angle': 1}, tilt='zero', c0=5, cost=600)
        add("rt:full:bond+angle:N2:tilted", style='full', N=2, terms={'bond': 1, 'angle': 1}, tilt='sym', c0=0, cost=300)
    return out


def type_table(p):
    """atom type table of the instance.  'beads': a coarse-grained / united-atom model - masses that are no element's (within the default
    tolerance), labels that are the model's own names; on reading, elements fall back to the type numbers (C14) while the LABELS written in
    the Masses comments are still the labels"""
    if p.get('type_table') == 'beads':
        return dict(elements=['BB', 'W'], labels=['BB', 'SC1'], masses=[72.0, 13.3], read_elements=['1', '2'])
    return dict(elements=['C', 'N'], labels=['C_R', 'N_3'], masses=[12.0107, 14.0067], read_elements=['C', 'N'])


def build(ctx, p):
    Atoms = ctx.ms.Atoms
    N = p['N']
    c0 = p.get('c0')
    kinds = list(p.get('terms', {}))
    if p.get('tables_without_terms'):
        kinds = ['bond', 'angle']
    tt = type_table(p)
    kw = dict(atom_types=[0] * N, positions=np.zeros((N, 3)), atom_type_elements=list(tt['elements']), atom_type_labels=list(tt['labels']),
              atom_type_masses=list(tt['masses']))
    if c0 is not None:
        kw['pair_coeffs'] = [COEFFS[(c0 + 6) % 8], COEFFS[(c0 + 3) % 8]]
    ncoef = {}
    for j, k in enumerate(kinds):
        ncoef[k] = 2 if j % 2 == 0 else 1
        if c0 is not None:
            kw[COEFF_ATTR[k]] = [COEFFS[(c0 + j + r) % 8] for r in range(ncoef[k])]
    a = Atoms(**kw)
    sp = Spec()
    sp.N = N
    sp.types = [ctx.int(f"t{i}", 0, 1) for i in range(N)]
    sp.charges = [ctx.real(f"q{i}", -10, 10) for i in range(N)]
    sp.groups = [ctx.int(f"g{i}", 0, 5) for i in range(N)]
    sp.pos = [[ctx.real(f"p{i}{c}", -1000, 1000) for c in 'xyz'] for i in range(N)]
    a.positions = ctx.arr(sp.pos)
    a.charges = ctx.arr(sp.charges)
    a.groups = ctx.arr(sp.groups)
    a.atom_types = ctx.arr(sp.types)
    for k in p.get('terms', {}):
        ar = ARITY[k]
        n = p['terms'][k]
        ends = [[ctx.int(f"{k[0]}{k[1]}{j}_{c}", 0, N - 1) for c in range(ar)] for j in range(n)]
        tys = [ctx.int(f"{k[0]}{k[1]}t{j}", 0, p.get('type_hi', ncoef[k] - 1) if c0 is None else ncoef[k] - 1) for j in range(n)]
        sp.terms[k] = list(zip(ends, tys))
        setattr(a, k + 's', ctx.arr(ends))
        setattr(a, k + '_types', ctx.arr(tys))
        setattr(a, f'extra_{k}_fields', np.full((n, 0), '.', dtype=object))
    cell = None
    if p.get('tilt') is not None:
        cx, cy, cz = [ctx.real(n_, 1, 100) for n_ in ('cx', 'cy', 'cz')]
        if p['tilt'] == 'sym':
            xy, xz, yz = [ctx.real(n_, -50, 50) for n_ in ('xy', 'xz', 'yz')]
        elif p['tilt'] == 'tiny':
            # a barely tilted cell (a = b = 25, c = 20, beta = 90.0004 degrees): the tilt is 175 times the printed precision and 7e-6 of the
            # longest edge; concrete, so that it stays decidable whatever norm / tolerance arithmetic the code applies to the cell
            cx, cy, cz = 25.0, 25.0, 20.0
            xy, xz, yz = 0.0, -0.000175, 0.0
        else:
            xy = xz = yz = 0.0
        cell = [[cx, 0.0, 0.0], [xy, cy, 0.0], [xz, yz, cz]]
        a.cell = ctx.arr(cell) if ctx.sym else np.array(cell, dtype=float)
    else:
        a.cell = None
    return a, sp, cell, kw, ncoef


def norm_coeff(s, angle=False):
    """what one normalising pass (mofun's reader) makes of a coefficient string: tokens joined by one space (two for angle
    coefficients), the comment re-attached as '   # comment'"""
    if '#' in s:
        body, com = s.split('#')
        return ("  " if angle else " ").join(body.split()) + "   # " + com.strip()
    return ("  " if angle else " ").join(s.split())


def fieldval(ctx, tok):
    """(value term, kind) of a written token: placeholder -> the term that was formatted; literal -> the number"""
    fm = ctx.ms.fmtmodel
    m = fm.PH.fullmatch(tok) if ctx.sym else None
    if m:
        e, c, prec = fm.FIELDS[int(m.group(1))]
        return Sym(e), c
    return (float(tok) if ('.' in tok or 'e' in tok) else int(tok)), 'lit'


def feq(ctx, tok, want):
    """the written token states `want`: placeholder field -> the very term that was formatted; literal text -> the number to the
    printed precision (6 decimals) / the integer exactly"""
    v, kind = fieldval(ctx, tok)
    if kind == 'lit' and isinstance(v, float):
        return close(v, want, 5.0000001e-7)
    return EQ(v, want)


def independent_read(ctx, text):
    """a reader written from the LAMMPS read_data documentation (not from mofun): header keywords at line ends, sections introduced
    by their name, 1-based ids; '#' starts a comment"""
    hdr, sect, cur = {}, {}, None
    names = ('Masses', 'Pair Coeffs', 'Bond Coeffs', 'Angle Coeffs', 'Dihedral Coeffs', 'Improper Coeffs', 'Atoms', 'Bonds', 'Angles', 'Dihedrals', 'Impropers')
    lines = text.split('\n')
    for ln, raw in enumerate(lines[1:], start=1):
        body = raw.split('#')[0].strip()
        comment = raw.split('#', 1)[1].strip() if '#' in raw else None
        if not body:
            continue
        if body in names:
            cur = body
            sect[cur] = []
            continue
        w = body.split()
        if cur is None:
            for key in ('atoms', 'bonds', 'angles', 'dihedrals', 'impropers'):
                if len(w) == 2 and w[1] == key:
                    hdr[key] = int(w[0])
            for key in ('atom types', 'bond types', 'angle types', 'dihedral types', 'improper types'):
                if len(w) == 3 and ' '.join(w[1:]) == key:
                    hdr[key] = fieldval(ctx, w[0])[0]
            for key in ('xlo xhi', 'ylo yhi', 'zlo zhi'):
                if len(w) == 4 and ' '.join(w[2:]) == key:
                    hdr[key] = (w[0], w[1])
            if len(w) == 6 and ' '.join(w[3:]) == 'xy xz yz':
                hdr['tilt'] = (w[0], w[1], w[2])
        else:
            sect[cur].append((w, comment, raw))
    return hdr, sect


def body(ctx, p):
    fam = p['family']
    if fam == 'dispatch':
        return dispatch_body(ctx, p)
    if fam == 'wide':
        return wide_body(ctx, p)
    if fam == 'many':
        return many_body(ctx, p)
    Atoms = ctx.ms.Atoms
    a, sp, cell, kw, ncoef = build(ctx, p)
    if p.get('history') == 'written-before-with-other-labels':
        # HISTORY: the object was written once while its types still carried other labels / other coefficient texts of the same count (before a
        # re-parameterisation); what is written now states the object as it is now
        tt = type_table(p)
        keep = (list(a.atom_type_labels), list(a.pair_coeffs))
        a.atom_type_labels = [str(x)[::-1] + "_old" for x in tt['labels']]
        if len(a.pair_coeffs):
            a.pair_coeffs = np.array([str(x) + " 9" for x in a.pair_coeffs])
        a.save_lmpdat(io.StringIO(), atom_format=p['style'])
        a.save_lmpdat(io.StringIO(), atom_format='atomic' if p['style'] == 'full' else 'full')
        a.atom_type_labels = keep[0]
        a.pair_coeffs = np.array(keep[1]) if len(keep[1]) else a.pair_coeffs[:0]
    style = p['style']
    N = p['N']
    f = io.StringIO()
    a.save_lmpdat(f, atom_format=style)
    text1 = f.getvalue()
    ctx.observe('len_text', len(text1.split('\n')))
    hdr, sect = independent_read(ctx, text1)
    with core.nosimplify():
        # ---------------- oracle 1: the text states the structure's content
        ok = hdr.get('atoms') == N and hdr.get('atom types') == 2
        for k, _ in KINDS:
            n = len(sp.terms[k])
            ok = ok and hdr.get(k + 's') == n
            tab = list(getattr(a, COEFF_ATTR[k]))
            want_types = len(tab) if (len(tab) or n == 0) else None
            if want_types:
                ok = ok and hdr.get(f'{k} types') == want_types
            elif n:
                # no coefficient table: the declared number of types must cover every type id in use (1-based ids in the file)
                decl = hdr.get(f'{k} types')
                ctx.require(f'declared number of {k} types covers every {k} type id in use',
                            AND(decl is not None, *[ty + 1 <= (decl if decl is not None else 0) for _, ty in sp.terms[k]]), detail=dict(declared=str(decl)))
            ok = ok and len(sect.get({'bond': 'Bonds', 'angle': 'Angles', 'dihedral': 'Dihedrals', 'improper': 'Impropers'}[k], [])) == n
            sec = {'bond': 'Bond Coeffs', 'angle': 'Angle Coeffs', 'dihedral': 'Dihedral Coeffs', 'improper': 'Improper Coeffs'}[k]
            ok = ok and len(sect.get(sec, [])) == len(tab)
            for r, (w, com, raw) in enumerate(sect.get(sec, [])):
                ok = ok and w[0] == str(r + 1) and raw == ' %d %s' % (r + 1, tab[r])
        ok = ok and len(sect.get('Masses', [])) == 2 and len(sect.get('Atoms', [])) == N
        ok = ok and len(sect.get('Pair Coeffs', [])) == len(a.pair_coeffs)
        for r, (w, com, raw) in enumerate(sect.get('Pair Coeffs', [])):
            ok = ok and raw == ' %d %s' % (r + 1, a.pair_coeffs[r])
        for r, (w, com, raw) in enumerate(sect.get('Masses', [])):
            ok = ok and w[0] == str(r + 1) and abs(float(w[1]) - type_table(p)['masses'][r]) < 1e-6 and com == type_table(p)['labels'][r]
        ctx.require('written header counts, sections, masses and coefficient rows state the structure', bool(ok), detail=dict(hdr={k_: str(v) for k_, v in hdr.items()}))
        if not ok:
            return
        if cell is not None:
            for key, val in (('xlo xhi', cell[0][0]), ('ylo yhi', cell[1][1]), ('zlo zhi', cell[2][2])):
                lo, hi = hdr[key]
                ctx.require('box bounds are 0 and the cell length', AND(feq(ctx, lo, 0), feq(ctx, hi, val)), detail=dict(key=key))
            if p['tilt'] in ('sym', 'tiny'):
                tl = hdr.get('tilt')
                nz = OR(cell[1][0] != 0, cell[2][0] != 0, cell[2][1] != 0)
                if tl is None:
                    ctx.require('tilt factors written whenever the cell is tilted', NOT(nz))
                else:
                    ctx.require('tilt factors are xy xz yz of the cell', AND(*[feq(ctx, tl[i], [cell[1][0], cell[2][0], cell[2][1]][i]) for i in range(3)]))
            else:
                ctx.require('no tilt line for an orthorhombic cell', 'tilt' not in hdr)
        else:
            ctx.require('no box lines without a cell', 'xlo xhi' not in hdr)
        for i, (w, com, raw) in enumerate(sect['Atoms']):
            if style == 'full':
                want = [i + 1, sp.groups[i] + 1, sp.types[i] + 1, sp.charges[i]] + sp.pos[i]
            else:
                want = [i + 1, sp.types[i] + 1] + sp.pos[i]
            ctx.require('atom line states id, (molecule,) type, (charge,) x y z of the atom', AND(len(w) == len(want), *[feq(ctx, x, y) for x, y in zip(w, want)]),
                        detail=dict(atom=i, line=raw[:60]))
        for k, _ in KINDS:
            secn = {'bond': 'Bonds', 'angle': 'Angles', 'dihedral': 'Dihedrals', 'improper': 'Impropers'}[k]
            for j, (w, com, raw) in enumerate(sect.get(secn, [])):
                ends, ty = sp.terms[k][j]
                want = [j + 1, ty + 1] + [e + 1 for e in ends]
                ctx.require(f'{k} line states id, type and 1-based atom ids', AND(len(w) == len(want), *[feq(ctx, x, y) for x, y in zip(w, want)]), detail=dict(term=j))
    # ---------------- oracle 2: mofun's reader
    r = Atoms.load_lmpdat(io.StringIO(text1), atom_format=style)
    half = Fraction(1, 2 * 10 ** 6) + Fraction(1, 10 ** 12)
    with core.nosimplify():
        ok = len(r.positions) == N and lengths_consistent(r)
        ctx.require('re-read structure has the same atom count', ok)
        if not ok:
            return
        for i in range(N):
            cs = [EQ(r.atom_types[i], sp.types[i])] + [close(r.positions[i][c], sp.pos[i][c], half) for c in range(3)]
            if style == 'full':
                cs += [close(r.charges[i], sp.charges[i], half), EQ(r.groups[i], sp.groups[i])]
            else:
                cs += [EQ(r.charges[i], 0), EQ(r.groups[i], 0)]
            ctx.require('re-read atom: same type id, position and charge to the printed precision, same group', AND(*cs), detail=dict(atom=i))
        for k, ar in KINDS:
            rows = term_rows(r, k)
            ctx.require(f're-read {k} count', len(rows) == len(sp.terms[k]))
            for j, (ends, ty) in enumerate(sp.terms[k]):
                if j < len(rows):
                    ctx.require(f're-read {k}: same atoms and type', AND(*[EQ(rows[j][0][c], ends[c]) for c in range(ar)], EQ(rows[j][1], ty)), detail=dict(term=j))
            tab = [str(x) for x in getattr(a, COEFF_ATTR[k])]
            got = [str(x) for x in getattr(r, COEFF_ATTR[k])]
            ctx.require(f're-read {k} coefficients token for token (comment kept)', got == [norm_coeff(s, angle=(k == 'angle')) for s in tab], detail=dict(got=got))
        ctx.require('re-read pair coefficients token for token', [str(x) for x in r.pair_coeffs] == [norm_coeff(s) for s in a.pair_coeffs])
        ctx.require('re-read masses, labels and elements', list(r.atom_type_labels) == type_table(p)['labels'] and list(r.atom_type_elements) == type_table(p)['read_elements']
                    and all(abs(float(x) - y) < 1e-6 for x, y in zip(r.atom_type_masses, type_table(p)['masses'])),
                    detail=dict(labels=list(r.atom_type_labels), elements=list(r.atom_type_elements)))
        if cell is None:
            ctx.require('no cell read back', r.cell is None)
        else:
            ctx.require('cell read back', r.cell is not None)
            if r.cell is not None:
                C = r.cell
                ctx.require('re-read cell: lengths and tilts to the printed precision, upper triangle zero',
                            AND(close(C[0][0], cell[0][0], 2 * half), close(C[1][1], cell[1][1], 2 * half), close(C[2][2], cell[2][2], 2 * half),
                                close(C[1][0], cell[1][0], half), close(C[2][0], cell[2][0], half), close(C[2][1], cell[2][1], half),
                                EQ(C[0][1], 0), EQ(C[0][2], 0), EQ(C[1][2], 0)))
    # ---------------- oracle 3: writing the re-read structure again is stable after at most one normalising pass
    f2 = io.StringIO()
    r.save_lmpdat(f2, atom_format=style)
    text2 = f2.getvalue()
    r2 = Atoms.load_lmpdat(io.StringIO(text2), atom_format=style)
    f3 = io.StringIO()
    r2.save_lmpdat(f3, atom_format=style)
    text3 = f3.getvalue()
    with core.nosimplify():
        ctx.require('third write equals second write (byte-identical after one normalising pass)', same_text(ctx, text2, text3),
                    detail=dict(a=text2[:200], b=text3[:200]))


def same_text(ctx, t1, t2):
    if not ctx.sym:
        return t1 == t2
    fm = ctx.ms.fmtmodel
    p1, p2 = fm.split_pieces(t1), fm.split_pieces(t2)
    if len(p1) != len(p2):
        return False
    cs = []
    for x, y in zip(p1, p2):
        if isinstance(x, str) != isinstance(y, str):
            return False
        if isinstance(x, str):
            if x != y:
                return False
        else:
            e1, c1, pr1 = fm.FIELDS[x]
            e2, c2, pr2 = fm.FIELDS[y]
            if c1 != c2 or pr1 != pr2:
                return False
            # equal printed text <=> equal value here: both are already multiples of 10^-P (they were parsed from P-digit text)
            cs.append(EQ(Sym(e1), Sym(e2)))
    return AND(*cs)


def dispatch_body(ctx, p):
    """Atoms.save / Atoms.load: path (by extension or explicit type) and open file give the same result"""
    import os
    import tempfile
    Atoms = ctx.ms.Atoms
    a = Atoms(elements='CN', positions=[[0.1, 0.2, 0.3], [1.0, -2.0, 3.5]], charges=[0.5, -0.5], groups=[0, 1], bonds=[(0, 1)], bond_types=[0],
              bond_type_coeffs=['harmonic 1 2'], cell=[[9., 0, 0], [1., 8., 0], [0.5, -1., 7.]])
    d = tempfile.mkdtemp()
    try:
        pth = os.path.join(d, 's.lmpdat')
        a.save(pth)
        t1 = open(pth).read()
        f = io.StringIO()
        a.save(f, filetype='lmpdat')
        pth2 = os.path.join(d, 's.dat')
        a.save(pth2, filetype='lmpdat')
        ctx.require('save by path, by explicit type and to an open file write the same text', t1 == f.getvalue() == open(pth2).read())
        # an explicit file type overrides whatever the path's extension suggests (LAMMPS naming data.<system>; a misleading .cif / .cml)
        for nm in ('data.uio66', 's.cif', 's.cml', 'noextension'):
            px = os.path.join(d, nm)
            a.save(px, filetype='lmpdat')
            ctx.require('an explicit file type overrides the extension of the path (save)', open(px).read() == t1, detail=dict(name=nm))
            bx = Atoms.load(px, filetype='lmpdat')
            ctx.require('an explicit file type overrides the extension of the path (load)',
                        len(bx) == 2 and list(bx.elements) == ['C', 'N'] and np.array_equal(bx.bonds, [[0, 1]]), detail=dict(name=nm))
        b1 = Atoms.load(pth)
        with open(pth) as fh:
            b2 = Atoms.load(fh, filetype='lmpdat')
        b3 = Atoms.load(pth2, filetype='lmpdat')
        same = all(np.allclose(x.positions, b1.positions) and list(x.elements) == list(b1.elements) and np.array_equal(x.bonds, b1.bonds)
                   and np.allclose(x.cell, b1.cell) for x in (b2, b3))
        ctx.require('load by path, by explicit type and from an open file give the same structure', bool(same) and len(b1) == 2)
        try:
            Atoms.load(io.StringIO(t1))
            ok = False
        except Exception:
            ok = True
        ctx.require('an open file without a file type is refused', ok)
    finally:
        import shutil
        shutil.rmtree(d)


def many_body(ctx, p):
    """more than nine atom / bond types: ids with two digits must keep their numeric order through a write/read cycle"""
    Atoms = ctx.ms.Atoms
    n = 12
    els = ['C', 'H', 'O', 'N', 'S', 'K', 'Ni', 'Zr', 'Cu', 'Zn', 'F', 'Cl']
    a = Atoms(atom_types=list(range(n)), positions=[[float(i), 1.0, 2.0] for i in range(n)], atom_type_elements=els,
              atom_type_labels=[f"L{i}_{e}" for i, e in enumerate(els)], pair_coeffs=[f"lj {i}.5 3.{i}" for i in range(n)],
              bonds=[(i, i + 1) for i in range(n - 1)], bond_types=list(range(n - 1)), bond_type_coeffs=[f"harmonic {i}.0 1.{i}" for i in range(n - 1)],
              cell=[[20., 0, 0], [0, 20., 0], [0, 0, 20.]])
    for style in ('full', 'atomic'):
        f = io.StringIO()
        a.save_lmpdat(f, atom_format=style)
        b = Atoms.load_lmpdat(io.StringIO(f.getvalue()), atom_format=style)
        ok = (list(b.atom_type_elements) == els and list(b.atom_type_labels) == list(a.atom_type_labels)
              and all(abs(float(x) - float(y)) < 1e-6 for x, y in zip(b.atom_type_masses, a.atom_type_masses))
              and [str(x) for x in b.pair_coeffs] == [norm_coeff(s_) for s_ in a.pair_coeffs]
              and [str(x) for x in b.bond_type_coeffs] == [norm_coeff(s_) for s_ in a.bond_type_coeffs]
              and [int(t) for t in b.atom_types] == list(range(n)) and [int(t) for t in b.bond_types] == list(range(n - 1)))
        ctx.require('twelve atom types and eleven bond types keep their ids, masses, labels and coefficient rows', ok, detail=dict(style=style, labels=list(b.atom_type_labels)[:12]))
        f2 = io.StringIO()
        b.save_lmpdat(f2, atom_format=style)
        b2 = Atoms.load_lmpdat(io.StringIO(f2.getvalue()), atom_format=style)
        f3 = io.StringIO()
        b2.save_lmpdat(f3, atom_format=style)
        ctx.require('second and third write are byte-identical (many types)', f2.getvalue() == f3.getvalue())


def wide_body(ctx, p):
    """coordinates needing more than the minimum field width stay separate tokens"""
    Atoms = ctx.ms.Atoms
    a = Atoms(elements='CN', positions=[[-1500.25, 12000.5, -2750.75], [3.0, 4.0, 5.0]], charges=[-0.25, 3.0], cell=[[20000., 0, 0], [0, 20000., 0], [0, 0, 20000.]])
    for style, ncol in (('full', 7), ('atomic', 5)):
        f = io.StringIO()
        a.save_lmpdat(f, atom_format=style)
        hdr, sect = independent_read(ctx, f.getvalue())
        ctx.require('wide coordinates are written as separate columns', all(len(w) == ncol for w, _, _ in sect['Atoms']), detail=dict(style=style))
        b = Atoms.load_lmpdat(io.StringIO(f.getvalue()), atom_format=style)
        ctx.require('wide coordinates read back', bool(np.allclose(b.positions, a.positions)))


SELFTESTS = [
    dict(name='reader-takes-charge-from-wrong-column', quick=True,
         mutate=[('mofun.atoms', "charges = np.array(atoms[:, 3], dtype=float)", "charges = np.array(atoms[:, 4], dtype=float)")],
         instance=dict(family='lmpdat', style='full', N=2, terms={}, tilt='zero', c0=None)),
    dict(name='writer-swaps-tilt-factors', quick=True,
         mutate=[('mofun.atoms', "(self.cell[1,0], self.cell[2,0], self.cell[2,1]))", "(self.cell[1,0], self.cell[2,1], self.cell[2,0]))")],
         instance=dict(family='lmpdat', style='full', N=2, terms={}, tilt='sym', c0=None)),
    dict(name='groups-relative-to-smallest-id',
         mutate=[('mofun.atoms', "groups = np.array(atoms[:, 1] - 1, dtype=int)", "groups = np.array(atoms[:, 1] - min(atoms[:, 1]), dtype=int)")],
         instance=dict(family='lmpdat', style='full', N=2, terms={}, tilt='zero', c0=None)),
]
