"""C04 - replacement changes exactly the matched atoms and nothing else.
Part F1 (this file): the real replace_pattern_in_structure with the find stub; symbolic match tuples, per-atom data of
all structure atoms, replacement fraction (a real in [0,1]) and the random subset.  The geometry side (real find under a
symbolic translation) is exercised by the C05/C08 harnesses, which re-use the same per-atom oracle."""
from harness.common import *
from harness.replace_f1 import *
from symnp import core

PROPERTY = 'C04'
LEVEL = 'model_checking'
FUNCTIONS = ['mofun.mofun.replace_pattern_in_structure', 'mofun.atoms.Atoms.copy', 'mofun.atoms.Atoms.extend_types',
             'mofun.atoms.Atoms.extend', 'mofun.atoms.Atoms.__delitem__', 'mofun.atoms.find_unchanged_atom_pairs']
BOUNDS = {'quick': 'N<=5 atoms, M<=2 disjoint matches (M<=3 for 1-atom patterns), 7 pattern pairs (empty/smaller/equal/larger, '
                   '0-3 shared atoms), replace_all on/off, replacement fraction a symbolic real in [0,1]',
          'thorough': 'N<=6, M<=3'}
OUTSIDE = ['masses/labels/coefficients (table level: C06/C09)', 'positions of inserted atoms (C05)', 'overlapping matches (C07)']
ASSUMPTIONS = ['find stub contract (C01): indices distinct within a match, elements equal the pattern\'s; matches pairwise disjoint',
               'round() modelled as nearest integer with ties either way']
STUBS = ['find_pattern_in_structure -> contract stub', 'random.sample -> nondeterministic ordered subset']


def instances(tier, seed):
    out = []

    def add(name, **kw):
        kw.setdefault('family', 'replace-atoms')
        out.append(dict(name=name, **kw))
    for pat in ['CH->CF', 'CH->NOO', 'CH->nothing', 'CH->C', 'CH->full']:
        add(f"atoms:{pat}:M2", pattern=pat, N=5, M=2, cost=20)
    add("atoms:CH->CF-offset:M1", pattern='CH->CF-offset', N=3, M=1, cost=5)
    add("atoms:CH->CF-extra-columns:M1", pattern='CH->CF-extra-columns', N=3, M=1, cost=5)
    add("atoms:CH->CF-extra-columns:M2:structure-has-other-columns", pattern='CH->CF-extra-columns', N=4, M=2, extra={'atom': ['xa'], 'bond': ['o']}, terms={'bond': 1},
        s_rows={'bond': 2}, cost=60)
    add("atoms:CH->CF-ff-labels:M2", pattern='CH->CF-ff-labels', N=5, M=2, cost=20)
    add("atoms:CH->CF:M2:replace_all", pattern='CH->CF', N=5, M=2, replace_all=True, cost=20)
    add("atoms:CCH->CCF-retyped:M1:common-atom-re-typed-in-place", pattern='CCH->CCF-retyped', N=4, M=1, cost=10)
    add("atoms:CH->CF-common-atom-2e-7-apart:M2", pattern='CH->CF-common-atom-2e-7-apart', N=5, M=2, cost=20)
    add("atoms:CH->CH-moved-0.002A:M1", pattern='CH->CH-moved-0.002A', N=3, M=1, cost=5)
    add("atoms:CH->CH-moved:M1", pattern='CH->CH-moved', N=3, M=1, cost=5)
    add("atoms:CHH->CHH:M1", pattern='CHH->CHH', N=4, M=1, cost=10)
    add("atoms:H->F:M3:fraction", pattern='H->F', N=4, M=3, fraction='sym', cost=30)
    add("atoms:CH->CF:M2:fraction", pattern='CH->CF', N=5, M=2, fraction='sym', cost=40)
    add("atoms:CH->nothing:M2:fraction", pattern='CH->nothing', N=4, M=2, fraction='sym', cost=20)
    # the fraction given as a whole number (1 = all, 0 = none) means the same as 1.0 / 0.0
    add("atoms:H->F:M3:fraction-integer-1", pattern='H->F', N=4, M=3, fraction=1, cost=10)
    add("atoms:CH->CF:M2:fraction-integer-0", pattern='CH->CF', N=4, M=2, fraction=0, cost=10)
    add("atoms:CH->CF:M0", pattern='CH->CF', N=3, M=0, cost=1)
    add("atoms:CH->NOO:M1:no-pair-tables", pattern='CH->NOO', N=4, M=1, s_pair=False, p_pair=False, cost=10)
    # end to end (real find, no stub) under a symbolic translation: counts, bystanders, inserted atoms in the matched frame
    add("e2e:S2:chiral4->big:triclinic", family='e2e', struct='S2', repl='chiral4->big', axes=[1], other=(0.5, 0, 0.9), charges=True, cost=60)
    add("e2e:S5:pair->FO:triclinic", family='e2e', struct='S5', repl='pair->FO', axes=[0], other=(0, 0.8, 0.3), charges=True, cost=60)
    add("e2e:S2:chiral4->CHSP:fraction0.9:triclinic", family='e2e', struct='S2', repl='chiral4->CHSP', axes=[2], other=(0.3, 0.2, 0), fraction=0.9, charges=True, cost=60)
    add("e2e:S1:chiral4->CHSP", family='e2e', struct='S1', repl='chiral4->CHSP', axes=[2], other=(0.9, 0.1, 0), charges=True, cost=30)
    add("atoms:CH->CF:M1:fraction", pattern='CH->CF', N=3, M=1, fraction='sym', cost=5)
    if tier == 'thorough':
        add("atoms:CH->CF:M3:fraction", pattern='CH->CF', N=6, M=3, fraction='sym', cost=600)
        add("atoms:CH->NOO:M3", pattern='CH->NOO', N=6, M=3, cost=300)
        add("atoms:CHO->CHN:M2", pattern='CHO->CHN', N=6, M=2, cost=300)
        add("atoms:H->F:M4:fraction", pattern='H->F', N=5, M=4, fraction='sym', cost=300)
        add("atoms:CHH->CHH:M2:replace_all", pattern='CHH->CHH', N=6, M=2, replace_all=True, cost=300)
    return out


def body(ctx, p):
    if p.get('family') == 'e2e':
        from harness import replace_e2e
        R = replace_e2e.run_e2e(ctx, p)
        info = replace_e2e.check_placement(ctx, p, R)
        if info is not None:
            replace_e2e.check_bystanders(ctx, p, R)
        replace_e2e.check_patterns_untouched(ctx, R)
        return
    R = run_replace(ctx, p)
    with core.nosimplify():
        check_atoms(ctx, p, R)


def check_atoms(ctx, p, R, positions_of_inserted=False):
    if R['raised'] is not None or R['result'] is None:
        ctx.fail('replacement of disjoint matches returns a structure', detail=dict(raised=R['raised']))
        return
    res, sp, M = R['result'], R['sp'], R['M']
    sel = R['selected']
    Mp = len(sel)
    ctx.observe('replaced', Mp)
    ctx.require('reported match count equals the number of replaced matches', EQ(R['count'], Mp),
                detail=dict(count=str(R['count']), replaced=Mp))
    if R['calls']:
        ctx.require("the caller's tolerance reaches the search unchanged", EQ(R['calls'][0].get('atol'), R['atol']), detail=dict(got=str(R['calls'][0].get('atol'))))
    f = R['f']
    if R['sampled']:
        ctx.require('replaced count is f*M rounded to a nearest integer', AND(2 * (Mp - f * M) <= 1, 2 * (f * M - Mp) <= 1),
                    detail=dict(replaced=Mp, M=M))
        ctx.require('fraction < 1 when a subset was drawn', f < 1.0)
    else:
        ctx.require('all matches replaced when the fraction is 1', AND(Mp == M, NOT(f < 1.0)))
    ctx.require('only found matches are replaced, each at most once', len(set(sel)) == len(sel) and all(0 <= m < M for m in sel))
    L = layout(R)
    nR = len(R['repl_d']['el'])
    nS = R['n']
    ctx.require('atom count = original - removed + inserted', len(res.positions) == L['n_final'] and lengths_consistent(res),
                detail=dict(n=len(res.positions), want=L['n_final']))
    if len(res.positions) != L['n_final'] or not lengths_consistent(res):
        return
    ctx.observe('n_atoms', len(res.positions))
    ctx.require('count changes by M\' * (|replacement| - |search|)', L['n_final'] == R['N'] + Mp * (nR - nS))
    rs = spec_from_state(res)
    T = rs.tables['atom']
    retained = {L['mt'][m][R['shared'][k]]: (m, k) for m in sel for k in R['shared']} if nR else {}
    for i in L['survivors']:
        r = L['final_of'][i]
        same = AND(EQ(rs.charges[r], sp.charges[i]), EQ(rs.groups[r], sp.groups[i]),
                   *[EQ(rs.pos[r][c], sp.pos[i][c]) for c in range(3)])
        ctx.require('surviving atom keeps position, charge and group and its place in the order', same, detail=dict(atom=i))
        if i not in retained:
            ctx.require('atom outside the replaced matches keeps its type (label, element, mass)',
                        AND(EQ(rs.types[r], sp.types[i]), T['elements'][:3] == sp.tables['atom']['elements'],
                            T['labels'][:3] == sp.tables['atom']['labels'], T['masses'][:3] == sp.tables['atom']['masses']),
                        detail=dict(atom=i))
        else:
            m, k = retained[i]
            el = R['repl_d']['el'][k]
            ctx.require('atom common to both patterns keeps its element',
                        OR(*[EQ(rs.types[r], v) for v, e in enumerate(T['elements']) if e == el]), detail=dict(atom=i))
    repl = R['replace']
    for (m, k), r in L['ins_final'].items():
        el = R['repl_d']['el'][k]
        ok = AND(OR(*[EQ(rs.types[r], v) for v, e in enumerate(T['elements']) if e == el]),
                 EQ(rs.charges[r], float(repl.charges[k])), EQ(rs.groups[r], int(repl.groups[k])))
        ctx.require('inserted atom has the replacement pattern\'s element, charge and group', ok, detail=dict(match=m, atom=k))
    unmodified_inputs(ctx, R)


SELFTESTS = [
    dict(name='truncate-instead-of-round', quick=True,
         mutate=[('mofun.mofun', "k=round(replace_fraction * len(match_positions))", "k=int(replace_fraction * len(match_positions))")],
         instance=dict(family='replace-atoms', pattern='H->F', N=4, M=3, fraction='sym')),
    dict(name='structure-not-copied', quick=True,
         mutate=[('mofun.mofun', "new_structure = structure.copy()", "new_structure = structure")],
         instance=dict(family='replace-atoms', pattern='CH->CF', N=4, M=1)),
]
