"""C10 - deleting atoms removes exactly them and the terms that touch them.
Runs the real Atoms.__delitem__ / _delete_and_reindex_atom_index_array / pop on directly constructed states whose
term end points, type ids, per-atom data and deleted indices (in arbitrary listing order) are symbolic."""
from harness.common import *
from symnp import core

PROPERTY = 'C10'
LEVEL = 'model_checking'
FUNCTIONS = ['mofun.atoms.Atoms.__delitem__', 'mofun.atoms.Atoms._delete_and_reindex_atom_index_array',
             'mofun.atoms.Atoms.pop', 'mofun.atoms.Atoms.assert_arrays_are_consistent_sizes']
BOUNDS = {'quick': 'N<=4 atoms, <=2 terms of one kind or 1+1 of two kinds, |D|<=3 deleted indices in any '
                   'listing order, <=2 extra columns; large sparsely bonded structures (60-400 atoms, 4-20 scattered/tail deletions, one symbolic term end point); all end points / types / per-atom data / deleted indices symbolic',
          'thorough': 'large sparsely bonded structures (60-400 atoms, 4-20 scattered/tail deletions, one symbolic term end point); N<=5 atoms, <=3 terms of one kind or up to three kinds at once, |D|<=3; otherwise as quick'}
OUTSIDE = ['more atoms/terms than the bound', 'duplicate indices in the deletion list (property: distinct indices)',
           'boolean-mask or slice deletion']
ASSUMPTIONS = ['deleted indices pairwise distinct and in [0,N)', 'term end points in [0,N) (not necessarily distinct)',
               'state constructed through the empty constructor with every array replaced, type tables wide enough for all ids']
STUBS = []
OPTS = {'timeout_ms': 20000}


def instances(tier, seed):
    # paths ~ (2K+1)^(number of symbolic end points) * K!  -> sizes below are chosen from that formula
    out = []
    big = tier == 'thorough'
    X = {'atom': ['xa', 'xb'], 'bond': ['o'], 'angle': ['u', 'v']}
    out.append(dict(name="del:bond2:N4:K2", family='delete', N=4, terms={'bond': 2}, K=2, cost=30))
    out.append(dict(name="del:angle1:N4:K2", family='delete', N=4, terms={'angle': 1}, K=2, cost=6))
    out.append(dict(name="del:angle2:N4:K1", family='delete', N=4, terms={'angle': 2}, K=1, cost=16))
    out.append(dict(name="del:dihedral1:N4:K2", family='delete', N=4, terms={'dihedral': 1}, K=2, cost=30))
    out.append(dict(name="del:improper1:N4:K2", family='delete', N=4, terms={'improper': 1}, K=2, cost=30))
    out.append(dict(name="del:bond1+angle1:N3:K1:extra", family='delete', N=3, terms={'bond': 1, 'angle': 1}, K=1,
                    extra=X, cost=6))
    out.append(dict(name="del:bond1+improper1:N4:K1", family='delete', N=4, terms={'bond': 1, 'improper': 1}, K=1, cost=16))
    out.append(dict(name="del:bond1:N4:K3", family='delete', N=4, terms={'bond': 1}, K=3, cost=8))
    out.append(dict(name="del:bond2:N3:K1:extra", family='delete', N=3, terms={'bond': 2}, K=1, extra=X, cost=2))
    out.append(dict(name="del:noterms:N3:K2", family='delete', N=3, terms={}, K=2, cost=1))
    out.append(dict(name="pop:N3:bond1+angle1", family='pop', N=3, terms={'bond': 1, 'angle': 1}, pop=True, cost=6))
    out.append(dict(name="pop-default:N3:bond1", family='pop', N=3, terms={'bond': 1}, pop=True, default=True, cost=1))
    out.append(dict(name="del-twice:bond1+angle1:N4:K1", family='delete', N=4, terms={'bond': 1, 'angle': 1}, K=1, twice='del', cost=200))
    out.append(dict(name="del-then-pop:bond2:N4:K1", family='delete', N=4, terms={'bond': 2}, K=1, twice='pop', cost=200))
    out.append(dict(name="del-on-copy:bond2:N3:K1", family='delete', N=3, terms={'bond': 2}, K=1, on_copy=True, cost=60))
    if big:
        out.append(dict(name="del-on-copy:bond1+angle1:N4:K1", family='delete', N=4, terms={'bond': 1, 'angle': 1}, K=1, on_copy=True, cost=600))
    # large sparsely bonded structures, many scattered deletions (integer-array paths inside numpy's set routines)
    out.append(dict(name="large:N130:del15:scattered", family='large', N=130, dels=list(range(0, 130, 9)), alo=40, ahi=60, chain=[51, 52, 53, 55, 56], cost=20))
    out.append(dict(name="large:N400:del20:scattered:shuffled", family='large', N=400, dels=list(range(0, 400, 20)), alo=195, ahi=215, chain=[201, 202, 203, 204, 205],
                    listing='shuffled', cost=30))
    # most of the atoms removed in one deletion (a guest-free framework cut down to one cluster): 78 of 96, 318 of 600
    keep96 = sorted(set([40, 41, 42, 43]) | set(range(0, 96, 7)))
    out.append(dict(name="large:N96:del78:most-atoms-removed", family='large', N=96, dels=[i for i in range(96) if i not in keep96], alo=36, ahi=46, chain=[40, 41, 42, 43], cost=30))
    keep600 = sorted(set([300, 301, 302, 303, 304]) | set(range(1, 600, 2)) - set(range(291, 311)))
    out.append(dict(name="large:N600:del-half:most-atoms-removed", family='large', N=600, dels=[i for i in range(600) if i not in keep600], alo=296, ahi=308,
                    chain=[300, 301, 302, 303, 304], listing='shuffled', cost=60))
    out.append(dict(name="large:N60:del-tail", family='large', N=60, dels=[3, 57, 58, 59], alo=0, ahi=59, chain=[20, 21, 22, 23], cost=30))
    if big:
        out.append(dict(name="del:angle2:N4:K2", family='delete', N=4, terms={'angle': 2}, K=2, cost=250))
        out.append(dict(name="del:bond2:N5:K3", family='delete', N=5, terms={'bond': 2}, K=3, cost=330))
        out.append(dict(name="del:bond3:N5:K1", family='delete', N=5, terms={'bond': 3}, K=1, cost=16))
        out.append(dict(name="del:dihedral1:N5:K3", family='delete', N=5, terms={'dihedral': 1}, K=3, cost=330))
        out.append(dict(name="del:improper2:N5:K1", family='delete', N=5, terms={'improper': 2}, K=1, cost=150))
        out.append(dict(name="del:dihedral1+improper1:N4:K1", family='delete', N=4,
                        terms={'dihedral': 1, 'improper': 1}, K=1, cost=150))
        out.append(dict(name="del:bond1+angle1:N4:K2:extra", family='delete', N=4, terms={'bond': 1, 'angle': 1}, K=2,
                        extra=X, cost=150))
        out.append(dict(name="del:all-kinds:N3:K1", family='delete', N=3,
                        terms={'bond': 1, 'angle': 1, 'dihedral': 1}, K=1, cost=400))
    return out


def large_body(ctx, p):
    """a large, sparsely bonded structure from which many scattered atoms are deleted: the integer-array code paths of the
    membership / re-indexing steps (which differ from the small-array ones inside numpy) with one symbolic term end point"""
    import numpy as rnp
    N, dels = p['N'], list(p['dels'])
    Atoms = ctx.ms.Atoms
    a0 = ctx.int('a', p['alo'], p['ahi'])
    core_atoms = p['chain']            # concrete atoms none of which is deleted; several terms share them
    ctx.assume(AND(*[a0 != c for c in core_atoms]))
    terms = {'bond': [[a0, core_atoms[0]]] + [[core_atoms[i], core_atoms[i + 1]] for i in range(len(core_atoms) - 1)],
             'angle': [[a0, core_atoms[0], core_atoms[1]]] + [[core_atoms[i], core_atoms[i + 1], core_atoms[i + 2]] for i in range(len(core_atoms) - 2)],
             'dihedral': [[a0, core_atoms[0], core_atoms[1], core_atoms[2]], [core_atoms[0], core_atoms[1], core_atoms[2], core_atoms[3]]],
             'improper': [[core_atoms[1], core_atoms[0], core_atoms[2], a0]]}
    types = {k: list(range(len(v))) for k, v in terms.items()}
    kw = {}
    for k, v in terms.items():
        kw[k + 's'] = ctx.arr(v)
        kw[k + '_types'] = types[k]
        kw[k + '_type_coeffs'] = [f"c{k}{i} 1.0" for i in range(len(v))]
    a = Atoms(elements=['C' if i % 3 else 'N' for i in range(N)], positions=[[float(i), 0.5 * i, 1.0] for i in range(N)],
              charges=[0.01 * i for i in range(N)], groups=[i // 7 for i in range(N)], **kw)
    if p.get('listing') == 'shuffled':
        dd = dels[::2] + dels[1::2][::-1]
    else:
        dd = dels
    del a[list(dd)]
    keep = [i for i in range(N) if i not in dels]
    ok = (len(a) == N - len(dels) and lengths_consistent(a)
          and all(abs(float(a.positions[r][0]) - float(i)) < 1e-12 and abs(float(a.charges[r]) - 0.01 * i) < 1e-12 and int(a.groups[r]) == i // 7
                  for r, i in enumerate(keep)))
    ctx.require('surviving atoms keep data and order', ok)
    ctx.observe('n_atoms', len(a))
    with core.nosimplify():
        isdel = lambda x: OR(*[EQ(x, d) for d in dels]) if isinstance(x, Sym) else (int(x) in dels)
        newidx = lambda x: x - COUNT([d < x for d in dels]) if isinstance(x, Sym) else int(x) - sum(1 for d in dels if d < int(x))
        for kind, tl in terms.items():
            rows = getattr(a, kind + 's')
            tys = getattr(a, kind + '_types')
            first_gone = isdel(a0)
            want_n = ITE(first_gone, len(tl) - 1, len(tl))
            ctx.observe('n_' + kind, len(rows))
            ctx.require(f'{kind} survives iff untouched (count)', AND(EQ(len(rows), want_n), len(tys) == len(rows)), detail=dict(kind=kind, n=len(rows)))
            for off, want_first in ((0, False), (1, True)):
                # rows expected when the first term (the one with the symbolic end) is kept / removed
                exp = tl[off:]
                if len(rows) != len(exp):
                    continue
                same = AND(*[EQ(rows[r][c], newidx(exp[r][c])) for r in range(len(exp)) for c in range(len(exp[r]))],
                           *[EQ(int(tys[r]), types[kind][r + off]) for r in range(len(exp))])
                ctx.require(f'surviving {kind} connects the same atoms with the same type', IMPLIES(first_gone if want_first else NOT(first_gone), same),
                            detail=dict(kind=kind, rows=[[str(x) for x in r_] for r_ in rows][:4]))


def body(ctx, p):
    if p.get('family') == 'large':
        return large_body(ctx, p)
    N = p['N']
    a, sp = build_state(ctx, 's', N, terms=p.get('terms'), coeff_rows={k: 3 for k in p.get('terms', {})},
                        atom_rows=3, extra=p.get('extra'))
    if p.get('pop'):
        if p.get('default'):
            a.pop()
            dels = [N - 1]
        else:
            pos = ctx.int('pos', -N, N - 1)
            a.pop(pos)
            dels = [ITE(pos < 0, pos + N, pos)]
    else:
        K = p['K']
        dels = [ctx.int(f"d{i}", 0, N - 1) for i in range(K)]
        for i in range(K):
            for j in range(i):
                ctx.assume(dels[i] != dels[j])
        if p.get('on_copy'):
            # HISTORY: the structure was copied; atoms are deleted from the COPY; the original must not change, and a later deletion on the
            # original must still be exact
            b = a.copy()
            del b[list(dels)]
            check_deleted(ctx, b, sp, dels, label='copy: ')
            now = spec_from_state(a)
            with core.nosimplify():
                same = AND(now.N == sp.N, lengths_consistent(a),
                           *[EQ(x, y) for x, y in zip(now.types + now.charges + now.groups, sp.types + sp.charges + sp.groups)],
                           *[len(now.terms[k]) == len(sp.terms[k]) for k, _ in KINDS],
                           *[EQ(x, y) for k, _ in KINDS for (e1, t1), (e2, t2) in zip(now.terms[k], sp.terms[k]) for x, y in list(zip(e1, e2)) + [(t1, t2)]])
            ctx.require('deleting atoms from a copy leaves the original structure untouched', same)
            dels = [ctx.int("e0", 0, N - 1)]
            del a[list(dels)]
            check_deleted(ctx, a, sp, dels, label='original, afterwards: ')
            return
        del a[list(dels)]
        if p.get('twice'):
            # HISTORY: a second deletion on the SAME object (pop of a symbolic position, then a deletion by index list would be the same path)
            check_deleted(ctx, a, sp, dels, label='1st: ')
            sp2 = spec_from_state(a)
            if sp2.N == 0:
                return
            d2 = [ctx.int("e0", 0, sp2.N - 1)]
            if p['twice'] == 'pop':
                a.pop(d2[0])
            else:
                del a[list(d2)]
            check_deleted(ctx, a, sp2, d2, label='2nd deletion on the same object: ')
            return
    K = len(dels)
    check_deleted(ctx, a, sp, dels)


def check_deleted(ctx, a, sp, dels, label=''):
    from symnp import core
    with core.nosimplify():
        _check_deleted(ctx, a, sp, dels, label)


def _check_deleted(ctx, a, sp, dels, label=''):
    N = sp.N
    K = len(dels)

    _dc, _nc = {}, {}

    def _key(x):
        return x.e.get_id() if isinstance(x, Sym) else ('c', int(x))

    def deleted(x):
        k = _key(x)
        if k not in _dc:
            _dc[k] = OR(*[EQ(x, d) for d in dels])
        return _dc[k]

    def newidx(x):
        k = _key(x)
        if k not in _nc:
            _nc[k] = x - COUNT([d < x for d in dels])
        return _nc[k]

    if not ctx.require(label + 'atom count', len(a.positions) == N - K and lengths_consistent(a),
                       detail=dict(n=len(a.positions), want=N - K)):
        return
    if len(a.positions) != N - K or not lengths_consistent(a):
        return
    ctx.observe('n_atoms', len(a.positions))
    # every surviving atom sits, with all its data, at its order-preserving new index
    for r in range(N - K):
        for i in range(N):
            here = AND(NOT(deleted(i)), EQ(newidx(i), r))
            same = AND(EQ(a.atom_types[r], sp.types[i]), EQ(a.charges[r], sp.charges[i]),
                       EQ(a.groups[r], sp.groups[i]), *[EQ(a.positions[r][c], sp.pos[i][c]) for c in range(3)])
            xf = all(tok(a.extra_atom_fields[r][c]) == sp.extra['atom'][i][c] for c in range(len(sp.extra_labels['atom'])))
            ctx.require(label + 'surviving atom keeps data and order', IMPLIES(here, AND(same, xf)),
                        detail=dict(row=r, orig=i))
    for kind, ar in KINDS:
        tl = sp.terms[kind]
        rows = term_rows(a, kind)
        xf = getattr(a, f'extra_{kind}_fields')
        flags = [NOT(OR(*[deleted(x) for x in ends])) for ends, _ in tl]
        ctx.require(label + f'{kind} survives iff untouched (count)', EQ(COUNT(flags), len(rows)) if tl else len(rows) == 0,
                    detail=dict(kind=kind, n=len(rows)))
        ctx.observe(f'n_{kind}', len(rows))
        pref = [COUNT(flags[:j]) for j in range(len(tl))]
        for r in range(len(rows)):
            for j, (ends, ty) in enumerate(tl):
                isr = AND(flags[j], EQ(pref[j], r))
                same = AND(*[EQ(rows[r][0][c], newidx(ends[c])) for c in range(ar)], EQ(rows[r][1], ty))
                xok = all(tok(xf[r][c]) == sp.extra[kind][j][c] for c in range(len(sp.extra_labels[kind])))
                ctx.require(label + f'surviving {kind} connects the same atoms with same type/extra fields',
                            IMPLIES(isr, AND(same, xok)), detail=dict(kind=kind, row=r, orig=j))


SELFTESTS = [
    dict(name='sorted-without-reverse', quick=True,
         mutate=[('mofun.atoms', 'sorted_indices = sorted(indices, reverse=True)', 'sorted_indices = sorted(indices)')],
         instance=dict(family='delete', N=4, terms={'bond': 2}, K=2)),
    dict(name='pop-noop', quick=True,
         mutate=[('mofun.atoms', "        if pos < 0:\n            pos += len(self)\n        del(self[[pos]])", "        del(self, pos)")],
         instance=dict(family='pop', N=3, terms={'bond': 1}, pop=True)),
]
