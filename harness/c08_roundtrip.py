"""C08 - self-replacement is a no-op and element substitutions are reversible.
The real find + replace end to end under a symbolic translation.  (1) pattern -> identical pattern: atom count, every atom's
position TERM, element, charge, group and the sets of bond/angle/torsion tuples are unchanged; (2) A -> B -> A on site patterns
(single atoms and C-H/C-F pairs, chiral 4-atom groups): the multiset of (element, position modulo lattice) is restored and a
second search for A after replace-all finds nothing."""
from harness.replace_e2e import *

PROPERTY = 'C08'
LEVEL = 'model_checking'
FUNCTIONS = ['mofun.atoms.Atoms.extend.find_existing_topo', 'mofun.mofun.replace_pattern_in_structure', 'mofun.mofun.find_pattern_in_structure', 'mofun.atoms.find_unchanged_atom_pairs',
             'mofun.atoms.Atoms.extend', 'mofun.atoms.Atoms.extend_types', 'mofun.atoms.Atoms.__delitem__']
BOUNDS = {'quick': '8 planted structures (<=12 atoms) with bonds/angles/dihedrals/impropers, 7 identity pattern pairs (asymmetric, planar, '
                   'collinear, symmetric), 3 A->B->A chains (H/F sites, C-H/C-F pairs, 4-atom groups), one symbolic shift axis, ortho + triclinic cells',
          'thorough': 'as quick on all three shift axes and with replace_all'}
OUTSIDE = ['the repository real MOF files (size): named by the property, beyond the bound', 'poses outside the list', 'IEEE rounding (1e-5 A slack)']
ASSUMPTIONS = ['planted copies exact', 'the structure contains no B beforehand (A->B->A)']
STUBS = ['random.choice -> nondeterministic index', 'np.random.random(3) -> one of 3 fixed vectors']
OPTS = {'timeout_ms': 30000}


def instances(tier, seed):
    out = []

    def add(name, **kw):
        kw.setdefault('family', 'roundtrip')
        out.append(dict(name=name, **kw))
    idn = [('S1', 'chiral4->chiral4', 0), ('S2', 'chiral4->chiral4', 1), ('S5', 'pair->pair', 2), ('S3', 'planar3->planar3', 1),
           ('S4', 'collinear3->collinear3', 0), ('S12', 'ch2-sym3->ch2-sym3', 2), ('S8', 'linear-sym3->linear-sym3', 1)]
    for sname, rp, ax in idn:
        for a in ([ax] if tier == 'quick' else [0, 1, 2]):
            add(f"self:{sname}:{rp}:axis{a}", struct=sname, repl=rp, axes=[a], other=(0.35, 0.9, 0.6), mode='self', st_terms=True, charges=True,
                pat_charges=(sname in ('S1', 'S5', 'S3')), joint_translate=('sym' if sname in ('S2', 'S4') else None),
                symmetric=sname in ('S12', 'S8'), cost=30)
    add("self:S16:weak-chiral6:mirror-decoy-untouched", struct='S16', repl='weak-chiral6->weak-chiral6', axes=[0], other=(0, 0.3, 0.6), mode='self', st_terms=True, charges=True, cost=30)
    add("self:S5:pair->pair:differently-numbered-type-tables", struct='S5', repl='pair->pair', axes=[1], other=(0.3, 0, 0.6), mode='self', st_terms=True, charges=True,
        search_type_offset=True, cost=40)
    add("self:S1:chiral4->chiral4:differently-numbered-type-tables", struct='S1', repl='chiral4->chiral4', axes=[2], other=(0.3, 0.7, 0), mode='self', st_terms=True,
        charges=True, search_type_offset=True, pat_charges=True, cost=30)
    add("self:S1:chiral4->chiral4:replace_all", struct='S1', repl='chiral4->chiral4', axes=[2], other=(0.35, 0.9, 0), mode='self-sites', replace_all=True, cost=20)
    # replace_all with SEVERAL matches (every matched atom is removed and re-inserted, match after match)
    add("self:S4:collinear3->collinear3:replace_all:three-matches", struct='S4', repl='collinear3->collinear3', axes=[1], other=(0.35, 0, 0.6), mode='self-sites', replace_all=True, cost=30)
    add("self:S2:chiral4->chiral4:replace_all:two-matches", struct='S2', repl='chiral4->chiral4', axes=[0], other=(0, 0.9, 0.6), mode='self-sites', replace_all=True, cost=30)
    add("aba:S6:single->F:singleF->H:replace_all", struct='S6', repl='single->F', repl2='singleF->H', axes=[1], other=(0.8, 0, 0.3), mode='aba', replace_all=True, cost=30)
    aba = [('S6', 'single->F', 'singleF->H', 1), ('S1', 'chiral4->CHSP', 'chiralCHSP->chiral4', 2), ('S6', 'single->F', 'singleF->H', 0),
           ('S2', 'chiral4->CHSP', 'chiralCHSP->chiral4', 1)]
    if tier == 'thorough':
        aba += [('S5', 'pair->CF', 'pairCF->pair', 0)]
    add("aba:S6:single->F:singleF->H:unused-type-row", struct='S6', repl='single->F', repl2='singleF->H', axes=[2], other=(0.8, 0.15, 0), mode='aba',
        unused_type_row=True, cost=20)
    # racemic big cell: proper copies near and far from the origin, the other hand far from the origin stays untouched
    add("aba:S29:chiralflat4->F:chiralflat4F->H:far-from-origin-mirror-site", struct='S29', repl='chiralflat4->F', repl2='chiralflat4F->H', axes=[0],
        other=(0, 0.02, 0.03), ranges={'0': (0.0, 0.12)}, mode='aba', cost=60)
    # B shares two elements with A at positions 0.07 A away (more than "same coordinates", less than a loose tolerance)
    add("aba:S3:planar3->planar3B:planar3B->planar3:ligands-moved-by-0.07A", struct='S3', repl='planar3->planar3B', repl2='planar3B->planar3', axes=[1],
        other=(0.25, 0, 0.7), mode='aba', cost=60)
    for sname, r1, r2, ax in aba:
        for a in ([ax] if tier == 'quick' or sname in ('S5',) else [0, 1, 2]):
            add(f"aba:{sname}:{r1}:{r2}:axis{a}", struct=sname, repl=r1, repl2=r2, axes=[a], other=(0.8, 0.15, 0.5), mode='aba', cost=60)
    # bookkeeping world (find stub, symbolic match tuple and symbolic end points of one further structure bond in either storage direction):
    # the pattern brings its own bonds and angle, the structure already has them on the matched atoms
    add("self-f1:CHH->CHH:N4:free-bond", family='self-f1', pattern='CHH->CHH', N=4, M=1, cost=60)
    if tier == 'thorough':
        add("self-f1:CHH->CHH:N5:free-bond", family='self-f1', pattern='CHH->CHH', N=5, M=1, cost=600)
    return out


def self_f1_body(ctx, p):
    """identity replacement through the bookkeeping half (extend_types / extend with identity map / bulk delete), match found by the
    contract stub: nothing about the structure may change - atoms, and the SET of bonded / angled tuples (up to direction)"""
    from harness import replace_f1 as F1
    from harness.common import COUNT, KINDS
    q = dict(p, terms={'bond': 3, 'angle': 1}, s_rows={'bond': 2, 'angle': 2}, s_pair=True)
    pre = {}

    def pin(ctx_, sp, idx):
        # the structure's first two bonds and its angle are the pattern's own terms on the matched atoms (the third bond is free)
        m = idx[0]
        (b0, _), (b1, _), _free = sp.terms['bond']
        (a0, _), = sp.terms['angle']
        ctx_.assume(AND(EQ(b0[0], m[0]), EQ(b0[1], m[1]), EQ(b1[0], m[2]), EQ(b1[1], m[0])))
        ctx_.assume(AND(EQ(a0[0], m[1]), EQ(a0[1], m[0]), EQ(a0[2], m[2])))
        fr = sp.terms['bond'][2][0]
        # the free bond is a real bond: two different atoms, not one of the two pattern bonds again
        ctx_.assume(fr[0] != fr[1])
        for (x, y) in ((m[0], m[1]), (m[0], m[2])):
            ctx_.assume(NOT(OR(AND(EQ(fr[0], x), EQ(fr[1], y)), AND(EQ(fr[0], y), EQ(fr[1], x)))))
    q['after_matches'] = pin
    R = F1.run_replace(ctx, q)
    if R['raised'] is not None or R['result'] is None:
        ctx.fail('self-replacement returns a structure', detail=dict(raised=R['raised']))
        return
    res, sp = R['result'], R['sp']
    rs = F1.spec_from_state(res)
    if not ctx.require('atom count unchanged', rs.N == sp.N and F1.lengths_consistent(res), detail=dict(n=rs.N)):
        return
    with core.nosimplify():
        for i in range(sp.N):
            ctx.require('every atom keeps its position, charge and group',
                        AND(*[EQ(rs.pos[i][c], sp.pos[i][c]) for c in range(3)], EQ(rs.charges[i], sp.charges[i]), EQ(rs.groups[i], sp.groups[i])),
                        detail=dict(atom=i))
            ctx.require('every atom keeps its element', F1.resolves_to(rs.tables['atom']['elements'], rs.types[i], sp.tables['atom']['elements'], sp.types[i]),
                        detail=dict(atom=i))
        for kind, ar in (('bond', 2), ('angle', 3)):
            before, after = sp.terms[kind], rs.terms[kind]

            def same(t1, t2):
                return OR(AND(*[EQ(t1[c], t2[c]) for c in range(ar)]), AND(*[EQ(t1[c], t2[ar - 1 - c]) for c in range(ar)]))
            ctx.observe(f'n_{kind}', len(after))
            for j, (e, _) in enumerate(before):
                ctx.require(f'every {kind}ed tuple of the structure is still there after self-replacement',
                            OR(*[same(e, e2) for e2, _ in after]), detail=dict(kind=kind, term=j, n_after=len(after)))
            for j, (e2, _) in enumerate(after):
                ctx.require(f'no {kind}ed tuple appears that was not there before', OR(*[same(e, e2) for e, _ in before]), detail=dict(kind=kind, row=j))
            ctx.require(f'number of {kind}s unchanged', len(after) == len(before), detail=dict(n=len(after)))


def tuple_sets(a):
    return {k: sorted(tuple(int(x) for x in t) for t in getattr(a, k)) for k in ('bonds', 'angles', 'dihedrals', 'impropers')}


def body(ctx, p):
    if p.get('family') == 'self-f1':
        return self_f1_body(ctx, p)
    R = run_e2e(ctx, p)
    st, res = R['st'], R['res']
    N = len(R['els'])
    check_patterns_untouched(ctx, R)
    if p['mode'] == 'self':
        ctx.observe('count', int(R['count']))
        ctx.require('all planted occurrences matched', int(R['count']) == len(R['occ']))
        if not ctx.require('atom count unchanged', len(res.positions) == N):
            return
        with core.nosimplify():
            for i in range(N):
                ctx.require('every atom keeps its position, element, charge and group',
                            AND(*[EQ(res.positions[i][c], R['snap_pos'][i][c]) for c in range(3)], list(res.elements)[i] == R['els'][i],
                                EQ(res.charges[i], st.charges[i]), EQ(res.groups[i], st.groups[i])), detail=dict(atom=i))
        ctx.require('sets of bonded / angled / torsion atom tuples unchanged', tuple_sets(res) == tuple_sets(st),
                    detail=dict(got=tuple_sets(res)['bonds'][:5]))
    elif p['mode'] == 'self-sites':
        ok, why = same_sites(ctx, R['els'], R['snap_pos'], list(res.elements), res.positions, R['cell'])
        ctx.require('replace_all self-replacement restores every (element, position mod lattice) site', ok, detail=why)
    else:
        ctx.require('all planted occurrences replaced', int(R['count']) == len(R['occ']))
        sel = MOTIFS[REPL[p['repl']][0]][0]
        # the structure must contain no B beforehand; after A->B a search for A finds none
        pat_a = make_pattern(ctx, REPL[p['repl']][0])
        again = ctx.ms.mofun.find_pattern_in_structure(res, pat_a, atol=A)
        ctx.require('after replacing all occurrences a second search for the original pattern finds none', len(again) == 0,
                    detail=dict(found=len(again)))
        res2, count2 = replace_again(ctx, res, p['repl2'], replace_all=bool(p.get('replace_all')))
        ctx.observe('count2', int(count2))
        ctx.require('B -> A replaces the same number of sites', int(count2) == len(R['occ']), detail=dict(count2=int(count2)))
        ok, why = same_sites(ctx, R['els'], R['snap_pos'], list(res2.elements), res2.positions, R['cell'])
        ctx.require('A -> B -> A restores the multiset of (element, position modulo lattice)', ok, detail=why)


SELFTESTS = [
    dict(name='shared-atoms-not-kept-in-place', quick=True,
         mutate=[('mofun.mofun', "if not replace_all:\n                structure_index_map", "if False:\n                structure_index_map")],
         instance=dict(family='roundtrip', struct='S5', repl='pair->pair', axes=[2], other=(0.35, 0.9, 0.6), mode='self', st_terms=True, charges=True)),
    dict(name='offset-from-max-type-in-use', quick=True,
         mutate=[('mofun.atoms', "offsets = (self.num_atom_types, self.num_bond_types,", "offsets = (max(self.atom_types, default=-1) + 1, self.num_bond_types,")],
         instance=dict(family='roundtrip', struct='S6', repl='single->F', repl2='singleF->H', axes=[2], other=(0.8, 0.15, 0), mode='aba', unused_type_row=True)),
]
