"""C03 - search results do not depend on how crystal or pattern are represented.
End-to-end symbolic runs of the real find_pattern_in_structure (family F2b); every relation is decided as equality of the set
of matched atom groups with the planted set (the reference), on every region of the symbolic shift:
 (a) any shift + wrap (the symbolic translation), (b) atom permutations, (c) rigid motions of the pattern (listed rotations
 x SYMBOLIC pattern translation), (d) valid hint triples incl. index 0 and single hints, (e) random-generator states
 (symbolic random.choice, stubbed np.random.random), (f) supercells built by the real Atoms.replicate: a*b*c times the count."""
import itertools

from harness.find_runs import *

PROPERTY = 'C03'
LEVEL = 'model_checking'
FUNCTIONS = ['mofun.mofun.find_pattern_in_structure', 'mofun.mofun._get_positions_from_all_adjacent_unit_cells',
             'mofun.helpers.position_index_farthest_from_axis', 'mofun.helpers.quaternion_from_two_vectors',
             'mofun.helpers.quaternion_from_two_vectors_around_axis', 'mofun.helpers.group_duplicates', 'mofun.atoms.Atoms.replicate']
BOUNDS = {'quick': 'structures S1,S2,S4,S5,S7,S12 (<=12 atoms) x one symbolic shift axis; 4 seeded atom permutations; pattern in 6 '
                   'listed rotations with a symbolic 3-vector translation; 10 hint combinations (triples incl. index 0, single hints); '
                   'supercells (2,1,1),(1,2,1),(1,1,2) of an 8-atom cell',
          'thorough': 'all 24 hint triples, 12 permutations, supercells up to (2,2,1) and (3,1,1) incl. triclinic, more pattern rotations'}
OUTSIDE = ['the repository MOF files (size): the property names them, they are beyond the bound', 'poses/rotations outside the list',
           'hint triples whose orientation point lies on the axis (outside the property domain)', 'degenerate np.random vectors']
ASSUMPTIONS = ['as C02']
STUBS = ['random.choice -> nondeterministic index', 'np.random.random(3) -> one of 3 fixed vectors']
OPTS = {'timeout_ms': 30000}


def instances(tier, seed):
    rng = np.random.default_rng(seed + 77)
    out = []

    def add(name, **kw):
        kw.setdefault('family', 'invariance')
        out.append(dict(name=name, **kw))
    big = tier == 'thorough'
    # (b) permutations
    for k in range(12 if big else 4):
        sname = ['S1', 'S2', 'S5', 'S4'][k % 4]
        n = len(build_clusters(STRUCTS[sname][1])[0])
        perm = [int(x) for x in rng.permutation(n)]
        add(f"perm{k}:{sname}:axis{k % 3}", struct=sname, axes=[k % 3], other=(0.3, 0.05, 0.8), perm=perm, cost=20)
    # (c) rigid motion of the pattern: rotation from the list, translation symbolic
    for k, pp in enumerate(['p3', 'flipx', 'rz90', 'p5', 'near-anti', 'ry-90'] + (['p1', 'p2', 'p4', 'flipz', 'flipy', 'rz-90'] if big else [])):
        sname = ['S1', 'S4', 'S2', 'S12'][k % 4]
        add(f"patpose:{pp}:{sname}:axis{k % 3}", struct=sname, axes=[k % 3], other=(0.9, 0.4, 0.1), pat_pose=pp, pat_translate='sym', cost=25)
    for sname, ax in (('S20', 1), ('S21', 2), ('S14', 0), ('S15', 1)):
        add(f"patpose:{PAT_POSE[sname]}:{sname}:axis{ax}:antiparallel-copy", struct=sname, axes=[ax], other=(0.2, 0.7, 0.4), pat_pose=PAT_POSE[sname], pat_translate='sym', cost=25)
    add("cell:perpendicular-not-axis-aligned:S22:axis0", struct='S22', axes=[0], other=(0, 0.6, 0.4), cost=40)
    add("cell:perpendicular-not-axis-aligned:S22:axis1", struct='S22', axes=[1], other=(0.7, 0, 0.9), cost=40)
    add("supercell:(2,1,1):S22-perpendicular-not-axis-aligned", struct='S22', axes=[2], other=(0.2, 0.7, 0), dims=(2, 1, 1), cost=120)
    add("cell:strongly-tilted:S30:axis1", struct='S30', axes=[1], other=(0.6, 0, 0.2), cost=40)
    add("cell:strongly-tilted:S31:axis1", struct='S31', axes=[1], other=(0.35, 0, 0.75), cost=40)
    add("supercell:(1,2,1):S30-strongly-tilted", struct='S30', axes=[1], other=(0.2, 0, 0.55), dims=(1, 2, 1), cost=120)
    add("cell:as-long-as-the-pattern:S34:axis0", struct='S34', axes=[0], other=(0, 0.3, 0.2), cost=20)
    add("supercell:(1,1,2):S33-cell-as-long-as-the-pattern", struct='S33', axes=[2], other=(0.6, 0.3, 0), dims=(1, 1, 2), cost=60)
    # listing order of two atoms that share a site (mixed occupancy / duplicated atom): as listed and with the site partners exchanged
    add("perm:S36:two-atoms-at-identical-coordinates:as-listed", struct='S36', axes=[1], other=(0.2, 0, 0.6), cost=25)
    add("perm:S36:two-atoms-at-identical-coordinates:site-partners-exchanged", struct='S36', axes=[2], other=(0.2, 0.45, 0), perm=[4, 1, 2, 3, 0, 5, 6, 7, 9, 8], cost=25)
    add("cell:off-plane-atom-half-a-cell-edge-above-the-plane:S35:axis2", struct='S35', axes=[2], other=(0.1, 0.3, 0), cost=20)
    add("patpose:id:S23:two-fold-about-own-axis", struct='S23', axes=[1], other=(0.3, 0, 0.6), cost=20)
    add("patpose:p3:S23:two-fold-about-own-axis", struct='S23', axes=[1], other=(0.3, 0, 0.6), pat_pose='p3', pat_translate='sym', cost=20)
    add("hints:012:S23:two-fold-about-own-axis", struct='S23', axes=[2], other=(0.3, 0.2, 0), axisp1_idx=0, axisp2_idx=1, opoint_idx=2, cost=20)
    # (d) hints
    triples = [(a, b, c) for a in range(4) for b in range(4) for c in range(4) if len({a, b, c}) == 3]
    hl = triples if big else [(0, 1, 2), (2, 0, 3), (3, 2, 0), (1, 3, 2), (2, 3, 1)]
    for (a, b, c) in hl:
        add(f"hints:{a}{b}{c}:S1", struct='S1', axes=[(a + 2 * b + c) % 3], other=(0.6, 0.2, 0.95), axisp1_idx=a, axisp2_idx=b, opoint_idx=c, cost=15)
    for h in [dict(axisp1_idx=0), dict(axisp2_idx=0), dict(axisp1_idx=2), dict(axisp2_idx=3), dict(opoint_idx=0), dict(axisp1_idx=0, axisp2_idx=3)]:
        nm = ','.join(f"{k[:-4]}={v}" for k, v in h.items())
        add(f"hints:{nm}:S2", struct='S2', axes=[1], other=(0.6, 0, 0.3), cost=25, **h)
    add("hints:ap1=0,ap2=2:S4-collinear", struct='S4', axes=[0], other=(0, 0.2, 0.3), axisp1_idx=0, axisp2_idx=2, cost=15)
    add("hints:ap1=0,ap2=1:S4-collinear-short-axis", struct='S4', axes=[1], other=(0.4, 0, 0.3), axisp1_idx=0, axisp2_idx=1, cost=15)
    add("hints:ap1=2,ap2=1:S13-collinear-short-axis", struct='S13', axes=[2], other=(0.4, 0.1, 0), axisp1_idx=2, axisp2_idx=1, cost=15)
    add("hints:ap1=1,ap2=0:S5-pair", struct='S5', axes=[2], other=(0.5, 0.2, 0.3), axisp1_idx=1, axisp2_idx=0, cost=15)
    # (e) RNG states: symmetric motifs
    add("rng:S7:axis1", struct='S7', axes=[1], other=(0.2, 0, 0.6), cost=60)
    add("rng:S12:axis2", struct='S12', axes=[2], other=(0.2, 0.7, 0), cost=30)
    # (f) supercells
    dims = [(2, 1, 1), (1, 2, 1), (1, 1, 2)] + ([(2, 2, 1), (3, 1, 1), (1, 2, 2)] if big else [])
    for k, d in enumerate(dims):
        add(f"supercell:{d}:S1:axis{k % 3}", struct='S1', axes=[k % 3], other=(0.45, 0.8, 0.15), dims=d, cost=40 * d[0] * d[1] * d[2])
    add("supercell:(1,2,1):S5-triclinic:axis0", struct='S5', axes=[0], other=(0, 0.8, 0.15), dims=(1, 2, 1), cost=80)
    if big:
        add("supercell:(2,1,1):S2-triclinic:axis1", struct='S2', axes=[1], other=(0.1, 0, 0.7), dims=(2, 1, 1), cost=300)
        add("supercell:(1,1,2):S8-triclinic:axis2", struct='S8', axes=[2], other=(0.1, 0.3, 0), dims=(1, 1, 2), cost=100)
    return out


def body(ctx, p):
    if p.get('dims'):
        return supercell_body(ctx, p)
    R = run_find(ctx, p)
    check_complete(ctx, R)


def supercell_body(ctx, p):
    cellname, clusters, motif = STRUCTS[p['struct']]
    cell = CELLS[cellname]
    els, pos, groups = build_clusters(clusters)
    shift = [ctx.real(f"t{k}", 0, 1) if k in p['axes'] else float(p['other'][k]) for k in range(3)]
    rows = place(ctx, pos, cell, shift)
    st, order = make_structure(ctx, els, rows, cell)
    dims = tuple(p['dims'])
    sup = st.replicate(dims)
    N = len(els)
    tot = dims[0] * dims[1] * dims[2]
    if not ctx.require('supercell has a*b*c*N atoms', len(sup.positions) == tot * N):
        return
    pat = make_pattern(ctx, motif)
    idx = ctx.ms.mofun.find_pattern_in_structure(sup, pat, atol=A)
    got = sorted(tuple(sorted(int(i) for i in t)) for t in idx)
    unit = [tuple(sorted(g)) for kind, g in groups if kind in OCCURRENCE_KINDS]
    if p['struct'] in EXPECTED:
        unit = [tuple(sorted(g)) for g in EXPECTED[p['struct']]]
    ctx.observe('n_matches', len(got))
    ctx.require('supercell search reports every occurrence once per image: a*b*c times the unit-cell count', len(got) == tot * len(unit),
                detail=dict(got=len(got), want=tot * len(unit)))
    # a copy that straddles a unit-cell face is completed by atoms of the neighbouring image, so groups are compared modulo N
    folded = sorted(tuple(sorted(i % N for i in g)) for g in got)
    want = sorted(g for g in unit for _ in range(tot))
    flat = [i for g in got for i in g]
    once = len(set(flat)) == len(flat) or p['struct'] in EXPECTED      # (occurrences of the listed structures share atoms by construction)
    ctx.require('supercell matches are images of the unit-cell atom groups, each atom used once',
                folded == want and once, detail=dict(got=got[:6]))


SELFTESTS = [
    dict(name='single-hint-index-0-treated-as-missing', quick=True,
         mutate=[('mofun.mofun', "axisp1_idx = axisp1_idx if axisp1_idx is not None else axisp2_idx", "axisp1_idx = axisp1_idx or axisp2_idx")],
         instance=dict(family='invariance', struct='S2', axes=[1], other=(0.6, 0, 0.3), axisp1_idx=0)),
    dict(name='window-from-hinted-axis-length', quick=True,
         mutate=[('mofun.mofun', "pattern_length = p_ss.max() ** 0.5 + 2 * atol", "pattern_length = p_ss[axisp1_idx, axisp2_idx] ** 0.5 + 2 * atol")],
         instance=dict(family='invariance', struct='S4', axes=[1], other=(0.4, 0, 0.3), axisp1_idx=0, axisp2_idx=1)),
    dict(name='supercell-cell-scaled-by-columns',
         mutate=[('mofun.atoms', "repl_atoms.cell = self.cell * np.array(repldims).reshape(3, 1)", "repl_atoms.cell = self.cell * np.array(repldims)")],
         instance=dict(family='invariance', struct='S5', axes=[0], other=(0, 0.8, 0.15), dims=(1, 2, 1))),
]
